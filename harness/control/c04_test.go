//go:build verif

package control

// C04 — rule normalisation never changes what the rules mean.
// Drives the REAL optimizers (routing.ApplyRulesOptimizers with the optimizer values used by
// control_plane.go / component/dns/dns.go / daedns/router.go), the real config parser, the real matcher
// builders (traffic, DNS request, DNS response) and prints canonical observations.

import (
	"encoding/json"
	"fmt"
	"io"
	"net/netip"
	"os"
	"path/filepath"
	"strings"
	"testing"

	"github.com/daeuniverse/dae/common"
	"github.com/daeuniverse/dae/common/assets"
	"github.com/daeuniverse/dae/common/consts"
	"github.com/daeuniverse/dae/component/dns"
	"github.com/daeuniverse/dae/component/routing"
	"github.com/daeuniverse/dae/pkg/config_parser"
	"github.com/daeuniverse/dae/pkg/geodata"
	"github.com/sirupsen/logrus"
	"google.golang.org/protobuf/proto"
)

type c04Domain struct {
	T     int      `json:"t"` // geodata.Domain_Type
	V     string   `json:"v"`
	Attrs []string `json:"attrs"`
}
type c04Site struct {
	Code    string      `json:"code"`
	Domains []c04Domain `json:"domains"`
}
type c04Cidr struct {
	IP   string `json:"ip"` // textual address; 4 or 16 bytes are written accordingly
	Bits uint32 `json:"bits"`
}
type c04Geoip struct {
	Code    string    `json:"code"`
	Cidrs   []c04Cidr `json:"cidrs"`
	Inverse bool      `json:"inverse"`
}
type c04Probe struct {
	Src      string   `json:"src"`
	Dst      string   `json:"dst"`
	Sport    uint16   `json:"sport"`
	Dport    uint16   `json:"dport"`
	L4       uint8    `json:"l4"` // consts.L4ProtoType value
	Domain   string   `json:"domain"`
	Pname    string   `json:"pname"`
	Dscp     uint8    `json:"dscp"`
	Mac      string   `json:"mac"`
	QType    uint16   `json:"qtype"`
	IPs      []string `json:"ips"`
	Upstream string   `json:"upstream"`
}
type c04Case struct {
	Kind      string                `json:"kind"` // routing | dns_req | dns_resp
	Rules     string                `json:"rules"`
	Fallback  string                `json:"fallback"`
	Outbounds []string              `json:"outbounds"` // user-defined outbound / upstream names
	Geosite   map[string][]c04Site  `json:"geosite"`   // file name -> entries
	Geoip     map[string][]c04Geoip `json:"geoip"`
	Probes    []c04Probe            `json:"probes"`
	Atoms     [][3]string           `json:"atoms"` // (function, key, value) to be evaluated alone
	Outs      []string              `json:"outs"`  // not used by the harness
}

type c04Param struct {
	K string `json:"k"`
	V string `json:"v"`
}
type c04Func struct {
	Name   string     `json:"name"`
	Not    bool       `json:"not"`
	Params []c04Param `json:"params"`
}
type c04Rule struct {
	Funcs []c04Func `json:"funcs"`
	Out   c04Func   `json:"out"`
}
type c04Out struct {
	Print string `json:"print"`
	Name  string `json:"name"`
	Mark  uint32 `json:"mark"`
	Must  bool   `json:"must"`
	Err   string `json:"err,omitempty"`
}
type c04Result struct {
	ParseErr string      `json:"parse_err,omitempty"`
	Raw      []c04Rule   `json:"raw"`
	Stages   [][]c04Rule `json:"stages"`     // AST after each prefix of the pipeline (1..n optimizers)
	StageErr []string    `json:"stage_errs"` // error text per stage ("" = ok)
	Names    []string    `json:"stage_names"`
	Outs     []c04Out    `json:"outs"` // per raw rule: printed form of its outbound as merge sees it, parsed meaning (routing.ParseOutbound)
	RawBuild string      `json:"raw_build_err,omitempty"`
	OptBuild string      `json:"opt_build_err,omitempty"`
	DecRaw   []string    `json:"dec_raw"`
	DecOpt   []string    `json:"dec_opt"`
	Atoms    []string    `json:"atoms"` // per requested atom: one char per probe 0/1, or "E:<err>"
	Panic    string      `json:"panic,omitempty"`
}

func c04Params(ps []*config_parser.Param) []c04Param {
	out := make([]c04Param, 0, len(ps))
	for _, p := range ps {
		if p == nil {
			out = append(out, c04Param{K: "<nil>", V: "<nil>"})
			continue
		}
		out = append(out, c04Param{K: p.Key, V: p.Val})
	}
	return out
}

func c04Dump(rules []*config_parser.RoutingRule) []c04Rule {
	out := make([]c04Rule, 0, len(rules))
	for _, r := range rules {
		if r == nil {
			out = append(out, c04Rule{Out: c04Func{Name: "<nil rule>"}})
			continue
		}
		cr := c04Rule{Funcs: []c04Func{}, Out: c04Func{Name: r.Outbound.Name, Not: r.Outbound.Not, Params: c04Params(r.Outbound.Params)}}
		for _, f := range r.AndFunctions {
			cr.Funcs = append(cr.Funcs, c04Func{Name: f.Name, Not: f.Not, Params: c04Params(f.Params)})
		}
		out = append(out, cr)
	}
	return out
}

func c04WriteGeo(dir string, cs *c04Case) error {
	for fn, sites := range cs.Geosite {
		var l geodata.GeoSiteList
		for _, s := range sites {
			g := &geodata.GeoSite{CountryCode: s.Code}
			for _, d := range s.Domains {
				dd := &geodata.Domain{Type: geodata.Domain_Type(d.T), Value: d.V}
				for _, a := range d.Attrs {
					dd.Attribute = append(dd.Attribute, &geodata.Domain_Attribute{Key: a, TypedValue: &geodata.Domain_Attribute_BoolValue{BoolValue: true}})
				}
				g.Domain = append(g.Domain, dd)
			}
			l.Entry = append(l.Entry, g)
		}
		b, err := proto.Marshal(&l)
		if err != nil {
			return err
		}
		if err = os.WriteFile(filepath.Join(dir, fn), b, 0o644); err != nil {
			return err
		}
	}
	for fn, ips := range cs.Geoip {
		var l geodata.GeoIPList
		for _, s := range ips {
			g := &geodata.GeoIP{CountryCode: s.Code, InverseMatch: s.Inverse}
			for _, c := range s.Cidrs {
				a, err := netip.ParseAddr(c.IP)
				if err != nil {
					return err
				}
				g.Cidr = append(g.Cidr, &geodata.CIDR{Ip: a.AsSlice(), Prefix: c.Bits})
			}
			l.Entry = append(l.Entry, g)
		}
		b, err := proto.Marshal(&l)
		if err != nil {
			return err
		}
		if err = os.WriteFile(filepath.Join(dir, fn), b, 0o644); err != nil {
			return err
		}
	}
	return nil
}

// the optimizer values exactly as the three call sites construct them
func c04Pipeline(kind string, log *logrus.Logger, lf *assets.LocationFinder) ([]routing.RulesOptimizer, []string) {
	if kind == "routing" {
		// control/control_plane.go
		return []routing.RulesOptimizer{
			&routing.AliasOptimizer{},
			&routing.DatReaderOptimizer{Logger: log, LocationFinder: lf},
			&routing.MergeAndSortRulesOptimizer{},
			&routing.DeduplicateParamsOptimizer{},
		}, []string{"alias", "dat", "merge", "dedup"}
	}
	// component/dns/dns.go, component/daedns/router.go
	return []routing.RulesOptimizer{
		&routing.DatReaderOptimizer{Logger: log, LocationFinder: lf},
		&routing.MergeAndSortRulesOptimizer{},
		&routing.DeduplicateParamsOptimizer{},
	}, []string{"dat", "merge", "dedup"}
}

type c04Matcher struct {
	kind string
	rt   *RoutingMatcher
	req  *dns.RequestMatcher
	resp *dns.ResponseMatcher
	id2  map[uint8]string
	n2id map[string]uint8
}

func c04Build(kind string, log *logrus.Logger, rules []*config_parser.RoutingRule, fallback string, names []string) (m *c04Matcher, err error) {
	defer func() {
		if r := recover(); r != nil {
			err = fmt.Errorf("PANIC in builder: %v", r)
		}
	}()
	m = &c04Matcher{kind: kind, id2: map[uint8]string{}, n2id: map[string]uint8{}}
	switch kind {
	case "routing":
		m.n2id["direct"] = uint8(consts.OutboundDirect)
		m.n2id["block"] = uint8(consts.OutboundBlock)
		for i, n := range names {
			m.n2id[n] = uint8(int(consts.OutboundUserDefinedMin) + i)
		}
		for n, i := range m.n2id {
			m.id2[i] = n
		}
		b, err := NewRoutingMatcherBuilder(log, rules, m.n2id, nil, fallback)
		if err != nil {
			return nil, err
		}
		m.rt, err = b.BuildUserspace()
		return m, err
	case "dns_req":
		for i, n := range names {
			m.n2id[n] = uint8(i)
			m.id2[uint8(i)] = n
		}
		b, err := dns.NewRequestMatcherBuilder(log, rules, m.n2id, fallback)
		if err != nil {
			return nil, err
		}
		m.req, err = b.Build()
		return m, err
	case "dns_resp":
		for i, n := range names {
			m.n2id[n] = uint8(i)
			m.id2[uint8(i)] = n
		}
		b, err := dns.NewResponseMatcherBuilder(log, rules, m.n2id, fallback)
		if err != nil {
			return nil, err
		}
		m.resp, err = b.Build()
		return m, err
	}
	return nil, fmt.Errorf("bad kind %q", kind)
}

func c04Addr16(s string) [16]uint8 {
	if s == "" {
		return [16]uint8{}
	}
	return netip.MustParseAddr(s).As16()
}

func (m *c04Matcher) decide(p *c04Probe) (res string) {
	defer func() {
		if r := recover(); r != nil {
			res = fmt.Sprintf("PANIC:%v", r)
		}
	}()
	switch m.kind {
	case "routing":
		var pname [16]uint8
		copy(pname[:], []byte(p.Pname))
		var mac [16]uint8
		if p.Mac != "" {
			hw, err := common.ParseMac(p.Mac)
			if err != nil {
				return "ERR:probe mac"
			}
			copy(mac[10:], hw[:])
		}
		dst := netip.MustParseAddr(p.Dst)
		ver := consts.IpVersion_6
		if dst.Unmap().Is4() {
			ver = consts.IpVersion_4
		}
		ob, mark, must, err := m.rt.Match(c04Addr16(p.Src), c04Addr16(p.Dst), p.Sport, p.Dport, ver, consts.L4ProtoType(p.L4), p.Domain, pname, p.Dscp, mac)
		if err != nil {
			return "ERR:" + err.Error()
		}
		n, ok := m.id2[uint8(ob)]
		if !ok {
			n = fmt.Sprintf("#%d", ob)
		}
		return fmt.Sprintf("%s|%d|%v", n, mark, must)
	case "dns_req":
		up, err := m.req.Match(p.Domain, p.QType)
		if err != nil {
			return "ERR:" + err.Error()
		}
		if int(up) < int(consts.DnsRequestOutboundIndex_UserDefinedMax)+1 {
			if n, ok := m.id2[uint8(up)]; ok {
				return n + "|0|false"
			}
		}
		return up.String() + "|0|false"
	case "dns_resp":
		var ips []netip.Addr
		for _, s := range p.IPs {
			ips = append(ips, netip.MustParseAddr(s))
		}
		var upIdx consts.DnsRequestOutboundIndex
		switch p.Upstream {
		case "asis":
			upIdx = consts.DnsRequestOutboundIndex_AsIs
		default:
			id, ok := m.n2id[p.Upstream]
			if !ok {
				return "ERR:probe upstream"
			}
			upIdx = consts.DnsRequestOutboundIndex(id)
		}
		up, err := m.resp.Match(p.Domain, p.QType, ips, upIdx)
		if err != nil {
			return "ERR:" + err.Error()
		}
		if !up.IsReserved() {
			if n, ok := m.id2[uint8(up)]; ok {
				return n + "|0|false"
			}
		}
		return up.String() + "|0|false"
	}
	return "ERR:kind"
}

var c04AtomCache = map[string]string{}

func c04Run(cs *c04Case, tmpRoot string) (res c04Result) {
	defer func() {
		if r := recover(); r != nil {
			res.Panic = fmt.Sprint(r)
		}
	}()
	log := logrus.New()
	log.SetOutput(io.Discard)
	log.SetLevel(logrus.PanicLevel)

	sections, err := config_parser.Parse("routing {\n" + cs.Rules + "\n}\n")
	if err != nil {
		res.ParseErr = err.Error()
		return res
	}
	var raw []*config_parser.RoutingRule
	for _, s := range sections {
		for _, it := range s.Items {
			if r, ok := it.Value.(*config_parser.RoutingRule); ok && it.Type == config_parser.ItemType_RoutingRule {
				raw = append(raw, r)
			} else {
				res.ParseErr = "non-rule item in routing section: " + it.Type.String()
				return res
			}
		}
	}
	res.Raw = c04Dump(raw)
	for _, r := range raw {
		o := c04Out{Print: r.Outbound.String(true, false, true)}
		ob := r.Outbound
		if parsed, err := routing.ParseOutbound(&ob); err != nil {
			o.Err = err.Error()
		} else {
			o.Name, o.Mark, o.Must = parsed.Name, parsed.Mark, parsed.Must
		}
		res.Outs = append(res.Outs, o)
	}

	dir, err := os.MkdirTemp(tmpRoot, "c04geo")
	if err != nil {
		panic(err)
	}
	defer os.RemoveAll(dir)
	if err = c04WriteGeo(dir, cs); err != nil {
		panic(err)
	}
	// an isolated search path: only the scratch directory holds .dat files
	os.Setenv("DAE_LOCATION_ASSET", dir)
	lf := assets.NewLocationFinder([]string{dir})

	opts, names := c04Pipeline(cs.Kind, log, lf)
	res.Names = names
	var stageRules [][]*config_parser.RoutingRule
	for k := 1; k <= len(opts); k++ {
		// fresh optimizer values per stage (DatReaderOptimizer carries a cache)
		o2, _ := c04Pipeline(cs.Kind, log, lf)
		out, err := routing.ApplyRulesOptimizers(raw, o2[:k]...)
		if err != nil {
			res.StageErr = append(res.StageErr, err.Error())
			res.Stages = append(res.Stages, nil)
			stageRules = append(stageRules, nil)
			continue
		}
		res.StageErr = append(res.StageErr, "")
		res.Stages = append(res.Stages, c04Dump(out))
		stageRules = append(stageRules, out)
	}
	// the raw list must still be what the parser produced (ApplyRulesOptimizers clones)
	if fmt.Sprint(c04Dump(raw)) != fmt.Sprint(res.Raw) {
		res.Panic = "ApplyRulesOptimizers mutated its input"
		return res
	}
	datStage := 0
	if cs.Kind == "routing" {
		datStage = 1
	}
	last := len(opts) - 1
	if res.StageErr[datStage] == "" {
		if m, err := c04Build(cs.Kind, log, stageRules[datStage], cs.Fallback, cs.Outbounds); err != nil {
			res.RawBuild = err.Error()
		} else {
			for i := range cs.Probes {
				res.DecRaw = append(res.DecRaw, m.decide(&cs.Probes[i]))
			}
		}
	} else {
		res.RawBuild = "stage error: " + res.StageErr[datStage]
	}
	if res.StageErr[last] == "" {
		if m, err := c04Build(cs.Kind, log, stageRules[last], cs.Fallback, cs.Outbounds); err != nil {
			res.OptBuild = err.Error()
		} else {
			for i := range cs.Probes {
				res.DecOpt = append(res.DecOpt, m.decide(&cs.Probes[i]))
			}
		}
	} else {
		res.OptBuild = "stage error: " + res.StageErr[last]
	}

	// atom oracle: the meaning of a single value, read off the real builder + matcher
	pj, _ := json.Marshal(cs.Probes)
	hit, fb := "block", "direct"
	if cs.Kind == "dns_req" {
		hit, fb = "reject", "asis"
	} else if cs.Kind == "dns_resp" {
		hit, fb = "reject", "accept"
	}
	for _, a := range cs.Atoms {
		ck := cs.Kind + "\x00" + a[0] + "\x00" + a[1] + "\x00" + a[2] + "\x00" + string(pj)
		if v, ok := c04AtomCache[ck]; ok {
			res.Atoms = append(res.Atoms, v)
			continue
		}
		rule := &config_parser.RoutingRule{
			AndFunctions: []*config_parser.Function{{Name: a[0], Params: []*config_parser.Param{{Key: a[1], Val: a[2]}}}},
			Outbound:     config_parser.Function{Name: hit},
		}
		var v string
		if m, err := c04Build(cs.Kind, log, []*config_parser.RoutingRule{rule}, fb, cs.Outbounds); err != nil {
			v = "E:" + err.Error()
		} else {
			var sb strings.Builder
			for i := range cs.Probes {
				d := m.decide(&cs.Probes[i])
				switch {
				case strings.HasPrefix(d, hit+"|"):
					sb.WriteByte('1')
				case strings.HasPrefix(d, fb+"|"):
					sb.WriteByte('0')
				default:
					sb.WriteByte('?')
				}
			}
			v = sb.String()
		}
		c04AtomCache[ck] = v
		res.Atoms = append(res.Atoms, v)
	}
	return res
}

func TestVerifC04(t *testing.T) {
	tmp := os.Getenv("VERIF_TMP")
	if tmp == "" {
		tmp = t.TempDir()
	}
	verifEachLine(t, func(line []byte) any {
		var cs c04Case
		if err := json.Unmarshal(line, &cs); err != nil {
			t.Fatalf("bad case: %v", err)
		}
		return c04Run(&cs, tmp)
	})
}
