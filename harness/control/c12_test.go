//go:build verif

package control

// C12 harness: drives the real prefix/trie/LPM-key/dedup code on generated prefix sets.
// The functions c12CidrToBpfLpmKey, c12AddIpConstHash and c12AddSourceIpConstHash are lifted from the
// source text of control/bpf_utils.go and control/routing_matcher_builder.go by tools/c12.py on every run
// (generated overlay file zz_verif_c12_lifted_test.go).

import (
	"encoding/binary"
	"encoding/json"
	"fmt"
	"net/netip"
	"testing"

	"github.com/daeuniverse/dae/common"
	"github.com/daeuniverse/dae/common/consts"
	"github.com/daeuniverse/dae/component/routing"
	"github.com/daeuniverse/dae/pkg/config_parser"
	"github.com/daeuniverse/dae/pkg/trie"
	"github.com/sirupsen/logrus"
)

type c12Op struct {
	Op     string   `json:"op"` // ip | sip | mac
	Not    bool     `json:"not"`
	Values []string `json:"values"`
}

type c12Case struct {
	Kind      string      `json:"kind"` // set | builder
	Prefixes  []string    `json:"prefixes"`
	Probes    []string    `json:"probes"`
	Ops       []c12Op     `json:"ops"`
	Packets   [][3]string `json:"packets"` // dst, src, mac (as ::mac)
	ConstHash bool        `json:"consthash"`
	// builder cases: the order in which production takes the kernel snapshot, writes the kernel keys from it and
	// builds the userspace matcher: snapshot | install | userspace (default: the first-start order)
	Order     []string `json:"order"`
	SetProbes []string `json:"set_probes"` // addresses tested against every stored set, both forms
}

type c12Prefix struct {
	Is4  bool   `json:"is4"`
	Addr string `json:"addr"` // hex of the 32-bit (v4) or 128-bit value
	Bits int    `json:"bits"`
}

type c12Key struct {
	PrefixLen uint32    `json:"prefixlen"`
	Data      [4]uint32 `json:"data"`
}

type c12Result struct {
	Big        bool          `json:"big"`
	Err        string        `json:"err,omitempty"`
	Panic      string        `json:"panic,omitempty"`
	Parsed     []c12Prefix   `json:"parsed"`
	Bins       []string      `json:"bins"`
	Has        []bool        `json:"has"`
	Keys       []c12Key      `json:"keys"`
	ProbeWords [][4]uint32   `json:"probe_words"`
	Canon      []c12Prefix   `json:"canon"`
	Hash       string        `json:"hash"`
	Indices    []uint32      `json:"indices"`
	ValueIdx   []uint32      `json:"value_indices"`
	Types      []uint8       `json:"types"`
	Tries      [][]c12Prefix `json:"tries"`
	Matches    []int         `json:"matches"` // rule index, -1 fallback
	DedupCount int           `json:"dedup_count"`
	Installs   []c12Install  `json:"installs"` // one per replayed snapshot.BuildKernspace
	TrieHas    [][]bool      `json:"trie_has"` // RoutingMatcher.lpmMatcher[set].HasPrefix(probe)
}

// c12Install is what one snapshot.BuildKernspace call hands to the kernel for the LPM-backed sets: the key list of
// every stored set (buildRoutingKernspace: keys[j] = cidrToBpfLpmKey(cidr) over s.simulatedLpmTries) and the set
// index each LPM rule of s.rules points at (before the ring offset, which is C02's).
type c12Install struct {
	Keys    [][]c12Key `json:"keys"`
	RuleIdx []uint32   `json:"rule_idx"`
	Err     string     `json:"err,omitempty"`
}

// c12ReplayBuildKernspace follows routingKernspaceSnapshot.BuildKernspace -> buildRoutingKernspace up to the map
// writes (no kernel here): same inputs (s.rules, s.simulatedLpmTries), same conversion (the lifted cidrToBpfLpmKey).
func c12ReplayBuildKernspace(s *routingKernspaceSnapshot) (in c12Install) {
	in.Keys = [][]c12Key{}
	in.RuleIdx = []uint32{}
	if s == nil {
		in.Err = "nil routing kernspace snapshot"
		return in
	}
	if len(s.rules) == 0 {
		in.Err = "no routing rules to build"
		return in
	}
	for _, cidrs := range s.simulatedLpmTries {
		keys := make([]c12Key, len(cidrs))
		for j, cidr := range cidrs {
			k := c12CidrToBpfLpmKey(cidr)
			keys[j] = c12Key{PrefixLen: k.PrefixLen, Data: k.Data}
		}
		in.Keys = append(in.Keys, keys)
	}
	for _, r := range s.rules {
		switch consts.MatchType(r.Type) {
		case consts.MatchType_IpSet, consts.MatchType_SourceIpSet, consts.MatchType_Mac:
			in.RuleIdx = append(in.RuleIdx, binary.LittleEndian.Uint32(r.Value[:4]))
		}
	}
	return in
}

func c12DumpPrefix(p netip.Prefix) c12Prefix {
	a := p.Addr()
	if a.Is4() {
		b := a.As4()
		return c12Prefix{Is4: true, Addr: fmt.Sprintf("%x", b[:]), Bits: p.Bits()}
	}
	b := a.As16()
	return c12Prefix{Is4: false, Addr: fmt.Sprintf("%x", b[:]), Bits: p.Bits()}
}

func c12DumpPrefixes(ps []netip.Prefix) []c12Prefix {
	out := make([]c12Prefix, 0, len(ps))
	for _, p := range ps {
		out = append(out, c12DumpPrefix(p))
	}
	return out
}

var c12Log = func() *logrus.Logger {
	l := logrus.New()
	l.SetLevel(logrus.PanicLevel)
	return l
}()

// c12Parse runs the production parameter parser (routing.IpParserFactory -> parsePrefixes).
func c12Parse(values []string) (cidrs []netip.Prefix, err error) {
	parser := routing.IpParserFactory(func(f *config_parser.Function, cs []netip.Prefix, o *routing.Outbound) error {
		cidrs = cs
		return nil
	})
	err = parser(c12Log, &config_parser.Function{}, "", values, &routing.Outbound{Name: "x"})
	return cidrs, err
}

func c12ProbeBin(a netip.Addr) string {
	// as RoutingMatcher.Match and ResponseMatcher.Match do
	return trie.Prefix2bin128(netip.PrefixFrom(netip.AddrFrom16(a.As16()), 128))
}

func c12RunSet(cs c12Case) (res c12Result) {
	defer func() {
		if r := recover(); r != nil {
			res.Panic = fmt.Sprint(r)
		}
	}()
	var probe [4]byte
	binary.NativeEndian.PutUint32(probe[:], 1)
	res.Big = probe[0] == 0
	cidrs, err := c12Parse(cs.Prefixes)
	if err != nil {
		res.Err = "parse: " + err.Error()
		return res
	}
	res.Parsed = c12DumpPrefixes(cidrs)
	for _, p := range cidrs {
		res.Bins = append(res.Bins, trie.Prefix2bin128(p))
		k := c12CidrToBpfLpmKey(p)
		res.Keys = append(res.Keys, c12Key{PrefixLen: k.PrefixLen, Data: k.Data})
	}
	canon := canonicalizePrefixes(cidrs)
	res.Canon = c12DumpPrefixes(canon)
	res.Hash = fmt.Sprintf("%x", hashLpmSet(canon))
	for _, s := range cs.Probes {
		a := netip.MustParseAddr(s)
		a16 := a.As16()
		res.ProbeWords = append(res.ProbeWords, common.Ipv6ByteSliceToUint32Array(a16[:]))
	}
	t, err := trie.NewTrieFromPrefixes(cidrs)
	if err != nil {
		res.Err = "trie: " + err.Error()
		return res
	}
	for _, s := range cs.Probes {
		res.Has = append(res.Has, t.HasPrefix(c12ProbeBin(netip.MustParseAddr(s))))
	}
	return res
}

func c12Addr16(s string) [16]uint8 {
	return netip.MustParseAddr(s).As16()
}

func c12RunBuilder(cs c12Case) (res c12Result) {
	defer func() {
		if r := recover(); r != nil {
			res.Panic = fmt.Sprint(r)
		}
	}()
	var probe [4]byte
	binary.NativeEndian.PutUint32(probe[:], 1)
	res.Big = probe[0] == 0
	names := map[string]uint8{"direct": uint8(consts.OutboundDirect)}
	for i := range cs.Ops {
		names[fmt.Sprintf("o%d", i)] = uint8(consts.OutboundUserDefinedMin) + uint8(i)
	}
	b := &RoutingMatcherBuilder{
		log:                 c12Log,
		outboundName2Id:     names,
		referencedOutbounds: make(map[string]struct{}),
		lpmDedup:            make(map[uint64]lpmDedupEntry),
	}
	addIp, addSourceIp := b.addIp, b.addSourceIp
	if cs.ConstHash {
		addIp, addSourceIp = b.c12AddIpConstHash, b.c12AddSourceIpConstHash
	}
	for i, op := range cs.Ops {
		var parser routing.FunctionParser
		switch op.Op {
		case "ip":
			parser = routing.IpParserFactory(addIp)
		case "sip":
			parser = routing.IpParserFactory(addSourceIp)
		case "mac":
			parser = routing.MacParserFactory(b.addSourceMac)
		default:
			res.Err = "bad op " + op.Op
			return res
		}
		if err := parser(c12Log, &config_parser.Function{Not: op.Not}, "", op.Values, &routing.Outbound{Name: fmt.Sprintf("o%d", i)}); err != nil {
			res.Err = fmt.Sprintf("op %d: %v", i, err)
			return res
		}
	}
	if err := b.addFallback("direct"); err != nil {
		res.Err = "fallback: " + err.Error()
		return res
	}
	for i := 0; i < len(b.compiledRules)-1; i++ {
		res.Indices = append(res.Indices, b.compiledRules[i].lpmIndex)
		res.ValueIdx = append(res.ValueIdx, binary.LittleEndian.Uint32(b.rules[i].Value[:4]))
		res.Types = append(res.Types, b.rules[i].Type)
	}
	for _, t := range b.simulatedLpmTries {
		res.Tries = append(res.Tries, c12DumpPrefixes(t))
	}
	res.DedupCount = len(b.lpmDedup)
	order := cs.Order
	if len(order) == 0 {
		order = []string{"snapshot", "install", "userspace"}
	}
	var snap *routingKernspaceSnapshot
	var m *RoutingMatcher
	res.Installs = []c12Install{}
	for _, step := range order {
		switch step {
		case "snapshot":
			snap = b.KernspaceSnapshot()
		case "install":
			if snap == nil {
				res.Err = "harness: install before snapshot"
				return res
			}
			res.Installs = append(res.Installs, c12ReplayBuildKernspace(snap))
		case "userspace":
			var err error
			if m, err = b.BuildUserspace(); err != nil {
				res.Err = "build: " + err.Error()
				return res
			}
		default:
			res.Err = "harness: bad step " + step
			return res
		}
	}
	if m == nil {
		res.Err = "harness: order without userspace"
		return res
	}
	res.TrieHas = [][]bool{}
	for _, t := range m.lpmMatcher {
		row := []bool{}
		for _, s := range cs.SetProbes {
			row = append(row, t.HasPrefix(c12ProbeBin(netip.MustParseAddr(s))))
		}
		res.TrieHas = append(res.TrieHas, row)
	}
	for _, pk := range cs.Packets {
		out, _, _, err := m.Match(c12Addr16(pk[1]), c12Addr16(pk[0]), 1, 2, consts.IpVersion_6, consts.L4ProtoType_TCP, "", [16]uint8{}, 0, c12Addr16(pk[2]))
		if err != nil {
			res.Err = "match: " + err.Error()
			return res
		}
		if out == consts.OutboundDirect {
			res.Matches = append(res.Matches, -1)
		} else {
			res.Matches = append(res.Matches, int(out)-int(consts.OutboundUserDefinedMin))
		}
	}
	return res
}

func TestVerifC12(t *testing.T) {
	verifEachLine(t, func(line []byte) any {
		var cs c12Case
		if err := json.Unmarshal(line, &cs); err != nil {
			t.Fatalf("bad case: %v", err)
		}
		if cs.Kind == "builder" {
			return c12RunBuilder(cs)
		}
		return c12RunSet(cs)
	})
}
