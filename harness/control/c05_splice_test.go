//go:build verif && linux

package control

// C05 harness, splice path: real loopback TCP pairs through the REAL RelayTCPContextWithRecords on the
// relaySpliceCopyExact path (record != nil), with a back-pressured upstream so that a pipe->socket drain is
// partial, a cancellation placed from the traffic-record callback (it runs right after a drain, before the
// loop-top ctx check), then further unrelated connections that draw pipes from relaySplicePipePool.
// Observed: every drain (bytes moved, bytes left in the pipe), the fill level of every pooled pipe after the
// first connection, and the bytes of the later connections in both directions.

import (
	"context"
	"encoding/hex"
	"io"
	"net"
	"os"
	"sync"
	"sync/atomic"
	"syscall"
	"time"

	"golang.org/x/sys/unix"
)

type c05SpliceLater struct {
	Up   string `json:"up"` // hex the client sends
	Down string `json:"down"`
}

type c05SpliceCase struct {
	Kind       string           `json:"kind"`        // "splice"
	Upload     string           `json:"upload"`      // hex: what client 1 uploads
	Mode       string           `json:"mode"`        // partial | record | blocked | upstream_close | clean
	CancelAt   int              `json:"cancel_at"`   // partial: the n-th partial drain; record: the n-th drain
	PoolSeed   int              `json:"pool_seed"`   // pipes put into the emptied pool before connection 1
	Later      []c05SpliceLater `json:"later"`       // healthy connections afterwards
	WaitScale  int64            `json:"wait_scale"`
	Concurrent bool             `json:"concurrent"`  // run the later connections at the same time
}

type c05SpliceLaterRes struct {
	Up      string `json:"up"`   // hex the upstream received
	Down    string `json:"down"` // hex the client received
	UpEOF   bool   `json:"up_eof"`
	DownEOF bool   `json:"down_eof"`
	Err     string `json:"err"`
}

type c05SpliceResult struct {
	Splice    bool                `json:"splice"`
	Drains    [][2]int            `json:"drains"`     // per record callback of connection 1: bytes drained, bytes left in the pipe
	CancelIdx int                 `json:"cancel_idx"` // index in Drains at which the harness cancelled, -1 none
	Conn1Err  string              `json:"conn1_err"`
	Delivered int                 `json:"delivered"` // bytes that reached upstream 1's socket accounting (sum of drains)
	PoolLen   int                 `json:"pool_len"`
	PoolDirty []int               `json:"pool_dirty"` // unread bytes of every pooled pipe after connection 1 (and its hygiene)
	Later     []c05SpliceLaterRes `json:"later"`
	Skipped   string              `json:"skipped,omitempty"` // the kernel did not produce the wanted situation
	Hang      string              `json:"hang,omitempty"`
	Panic     string              `json:"panic,omitempty"`
}

func c05PairRcv(rcvBuf int) (*net.TCPConn, *net.TCPConn, error) {
	lc := net.ListenConfig{Control: func(_, _ string, c syscall.RawConn) error {
		if rcvBuf <= 0 {
			return nil
		}
		var serr error
		if err := c.Control(func(fd uintptr) {
			serr = unix.SetsockoptInt(int(fd), unix.SOL_SOCKET, unix.SO_RCVBUF, rcvBuf)
		}); err != nil {
			return err
		}
		return serr
	}}
	ln, err := lc.Listen(context.Background(), "tcp4", "127.0.0.1:0")
	if err != nil {
		return nil, nil, err
	}
	defer ln.Close()
	type res struct {
		c   net.Conn
		err error
	}
	ch := make(chan res, 1)
	go func() {
		c, err := ln.Accept()
		ch <- res{c, err}
	}()
	d, err := net.Dial("tcp4", ln.Addr().String())
	if err != nil {
		return nil, nil, err
	}
	r := <-ch
	if r.err != nil {
		return nil, nil, r.err
	}
	return d.(*net.TCPConn), r.c.(*net.TCPConn), nil
}

func c05DrainPipePool() (pipes []*relaySplicePipe) {
	for {
		select {
		case p := <-relaySplicePipePool:
			pipes = append(pipes, p)
		default:
			return
		}
	}
}

func c05PipeUnread(p *relaySplicePipe) int {
	if p == nil || p.readFD < 0 {
		return 0
	}
	n, err := unix.IoctlGetInt(p.readFD, unix.TIOCINQ)
	if err != nil {
		return 0
	}
	return n
}

func c05SpliceLaterRun(l c05SpliceLater, patience time.Duration) (r c05SpliceLaterRes) {
	client, left, err := c05PairRcv(0)
	if err != nil {
		r.Err = "pair: " + err.Error()
		return
	}
	right, upstream, err := c05PairRcv(0)
	if err != nil {
		r.Err = "pair: " + err.Error()
		return
	}
	defer client.Close()
	defer upstream.Close()
	dl := time.Now().Add(patience)
	_ = client.SetDeadline(dl)
	_ = upstream.SetDeadline(dl)
	done := make(chan error, 1)
	go func() {
		done <- RelayTCPContextWithRecords(context.Background(), left, right, func(int64) {}, func(int64) {})
	}()
	up, _ := hex.DecodeString(l.Up)
	down, _ := hex.DecodeString(l.Down)
	var wg sync.WaitGroup
	wg.Add(2)
	go func() {
		defer wg.Done()
		_, _ = client.Write(up)
		_ = client.CloseWrite()
	}()
	go func() {
		defer wg.Done()
		_, _ = upstream.Write(down)
		_ = upstream.CloseWrite()
	}()
	var gotUp, gotDown []byte
	var errUp, errDown error
	wg.Add(2)
	go func() { defer wg.Done(); gotUp, errUp = io.ReadAll(upstream) }()
	go func() { defer wg.Done(); gotDown, errDown = io.ReadAll(client) }()
	wg.Wait()
	r.Up, r.Down = hex.EncodeToString(gotUp), hex.EncodeToString(gotDown)
	r.UpEOF, r.DownEOF = errUp == nil, errDown == nil
	select {
	case e := <-done:
		r.Err = c05ErrClass(e)
	case <-time.After(patience):
		r.Err = "relay did not return"
	}
	return
}

func c05RunSplice(cs *c05SpliceCase) (res c05SpliceResult) {
	res.Splice = true
	res.CancelIdx = -1
	scale := time.Duration(1)
	if cs.WaitScale > 1 {
		scale = time.Duration(cs.WaitScale)
	}
	patience := 30 * time.Second * scale
	defer func() {
		if r := recover(); r != nil {
			res.Panic = "panic"
		}
	}()
	for _, p := range c05DrainPipePool() {
		p.close()
	}
	defer func() {
		for _, p := range c05DrainPipePool() {
			p.close()
		}
	}()
	var seeded []*relaySplicePipe
	for i := 0; i < cs.PoolSeed; i++ {
		p, err := newRelaySplicePipe()
		if err != nil {
			res.Skipped = "pipe: " + err.Error()
			return
		}
		seeded = append(seeded, p)
		relaySplicePipePool <- p
	}
	unreadMax := func() int {
		m := 0
		for _, p := range seeded {
			if u := c05PipeUnread(p); u > m {
				m = u
			}
		}
		return m
	}

	// ---- connection 1 --------------------------------------------------------------------------
	client1, left1, err := c05PairRcv(0)
	if err != nil {
		res.Skipped = "pair: " + err.Error()
		return
	}
	rcv := 4096
	if cs.Mode == "clean" {
		rcv = 0
	}
	right1, upstream1, err := c05PairRcv(rcv)
	if err != nil {
		res.Skipped = "pair: " + err.Error()
		return
	}
	defer client1.Close()
	defer upstream1.Close()
	if cs.Mode != "clean" {
		_ = right1.SetWriteBuffer(4096)
	}
	upload, _ := hex.DecodeString(cs.Upload)
	go func() {
		_ = client1.SetWriteDeadline(time.Now().Add(patience))
		_, _ = client1.Write(upload)
		if cs.Mode == "clean" {
			_ = client1.CloseWrite()
		}
	}()
	if cs.Mode == "clean" {
		go func() {
			_ = upstream1.SetReadDeadline(time.Now().Add(patience))
			_, _ = io.Copy(io.Discard, upstream1)
			_ = upstream1.CloseWrite()
		}()
	} else {
		// let the upload queue up on left1 so that one splice fills the pipe beyond what right1 accepts
		deadline := time.Now().Add(2 * time.Second * scale)
		for time.Now().Before(deadline) {
			if p, _ := tcpConnHasPendingReadData(left1); p {
				break
			}
			time.Sleep(time.Millisecond)
		}
		time.Sleep(150 * time.Millisecond)
	}
	ctx1, cancel1 := context.WithCancel(context.Background())
	defer cancel1()
	var mu sync.Mutex
	var cancelled atomic.Bool
	partials, records := 0, 0
	rightRecord := func(n int64) {
		// called by the l2r splice loop right after a pipe->socket drain, before the loop-top ctx check
		u := unreadMax()
		mu.Lock()
		res.Drains = append(res.Drains, [2]int{int(n), u})
		records++
		if u > 0 {
			partials++
		}
		fire := !cancelled.Load() &&
			((cs.Mode == "partial" && u > 0 && partials >= cs.CancelAt) || (cs.Mode == "record" && records >= cs.CancelAt))
		if fire {
			res.CancelIdx = len(res.Drains) - 1
		}
		mu.Unlock()
		if fire {
			cancelled.Store(true)
			cancel1()
		}
	}
	done1 := make(chan error, 1)
	go func() {
		done1 <- RelayTCPContextWithRecords(ctx1, left1, right1, func(int64) {}, rightRecord)
	}()
	stopTrickle := make(chan struct{})
	defer close(stopTrickle)
	if (cs.Mode == "partial" || cs.Mode == "record") && cs.CancelAt > 1 {
		// let the upstream take a little at a time so that several (partial) drains happen
		go func() {
			buf := make([]byte, 4096)
			for {
				select {
				case <-stopTrickle:
					return
				case <-time.After(5 * time.Millisecond):
				}
				_ = upstream1.SetReadDeadline(time.Now().Add(50 * time.Millisecond))
				if _, err := upstream1.Read(buf); err != nil && !os.IsTimeout(err) {
					return
				}
			}
		}()
	}
	switch cs.Mode {
	case "blocked":
		time.Sleep(200 * time.Millisecond) // the loop is blocked in the drain splice by now
		cancel1()
	case "upstream_close":
		time.Sleep(150 * time.Millisecond)
		_ = upstream1.SetLinger(0)
		_ = upstream1.Close()
	}
	wanted := time.After(4 * time.Second * scale)
	if cs.Mode != "partial" && cs.Mode != "record" {
		wanted = nil
	}
	select {
	case e := <-done1:
		res.Conn1Err = c05ErrClass(e)
	case <-wanted:
		// the wanted drain did not come: end connection 1 anyway (an ordinary cancellation while blocked)
		cancel1()
		select {
		case e := <-done1:
			res.Conn1Err = c05ErrClass(e)
		case <-time.After(patience):
			res.Hang = "connection 1 relay did not terminate\n" + c05Dump()
			return
		}
	case <-time.After(patience):
		res.Hang = "connection 1 relay did not terminate\n" + c05Dump()
		cancel1()
		return
	}
	mu.Lock()
	for _, d := range res.Drains {
		res.Delivered += d[0]
	}
	if (cs.Mode == "partial" || cs.Mode == "record") && res.CancelIdx < 0 {
		res.Skipped = "the wanted drain did not occur on this kernel"
	}
	mu.Unlock()

	// ---- pool hygiene: what is in the pool now must be empty pipes ---------------------------------
	pooled := c05DrainPipePool()
	res.PoolLen = len(pooled)
	for _, p := range pooled {
		res.PoolDirty = append(res.PoolDirty, c05PipeUnread(p))
	}
	for _, p := range pooled {
		relaySplicePipePool <- p
	}

	// ---- later connections ---------------------------------------------------------------------
	res.Later = make([]c05SpliceLaterRes, len(cs.Later))
	if cs.Concurrent {
		var wg sync.WaitGroup
		for i := range cs.Later {
			wg.Add(1)
			go func(i int) { defer wg.Done(); res.Later[i] = c05SpliceLaterRun(cs.Later[i], patience) }(i)
		}
		wg.Wait()
	} else {
		for i := range cs.Later {
			res.Later[i] = c05SpliceLaterRun(cs.Later[i], patience)
		}
	}
	return res
}

// ---------------------------------------------------------------------------------------------
// gather write: the REAL relayWritevAll over a scripted writev (per call: accept up to n bytes, or EAGAIN / EINTR)
// ---------------------------------------------------------------------------------------------

type c05WritevCall struct {
	N int    `json:"n"` // bytes the kernel accepts (clipped to what is offered); 0 = a zero-length write
	E string `json:"e"` // "EAGAIN" | "EINTR" | ""
}

type c05WritevCase struct {
	Kind   string          `json:"kind"` // "writev"
	Segs   []string        `json:"segs"` // hex
	Script []c05WritevCall `json:"script"`
}

type c05WritevResult struct {
	Writev  bool   `json:"writev"`
	Wire    string `json:"wire"` // hex: what the scripted kernel accepted, in order
	Written int    `json:"written"`
	Err     string `json:"err"`
	Calls   int    `json:"calls"`
	Panic   string `json:"panic,omitempty"`
	Hang    string `json:"hang,omitempty"`
}

type c05RawConn struct{ entries int }

func (s *c05RawConn) Control(func(uintptr)) error   { return nil }
func (s *c05RawConn) Read(func(uintptr) bool) error { return nil }
func (s *c05RawConn) Write(fn func(uintptr) bool) error {
	// the poller re-enters the callback until it reports completion
	for {
		s.entries++
		if s.entries > 10000 {
			return io.ErrNoProgress
		}
		if fn(1) {
			return nil
		}
	}
}

func c05RunWritev(cs *c05WritevCase) (res c05WritevResult) {
	res.Writev = true
	defer func() {
		if r := recover(); r != nil {
			res.Panic = "panic in relayWritevAll"
		}
	}()
	old := relayWritevFunc
	defer func() { relayWritevFunc = old }()
	var wire []byte
	calls := 0
	relayWritevFunc = func(_ int, segs [][]byte) (int, error) {
		var c c05WritevCall
		if calls < len(cs.Script) {
			c = cs.Script[calls]
		} else {
			c = c05WritevCall{N: 1 << 30}
		}
		calls++
		if calls > 5000 {
			return -1, syscall.EIO
		}
		switch c.E {
		case "EAGAIN":
			return -1, syscall.EAGAIN
		case "EINTR":
			return -1, syscall.EINTR
		}
		n := 0
		for _, seg := range segs {
			if n >= c.N {
				break
			}
			take := seg
			if n+len(take) > c.N {
				take = take[:c.N-n]
			}
			wire = append(wire, take...)
			n += len(take)
		}
		return n, nil
	}
	var segs [][]byte
	for _, h := range cs.Segs {
		b, _ := hex.DecodeString(h)
		segs = append(segs, b)
	}
	written, err := relayWritevAll(&c05RawConn{}, segs)
	res.Wire, res.Written, res.Err, res.Calls = hex.EncodeToString(wire), written, c05ErrClass(err), calls
	return res
}
