//go:build verif

package control

// C08 — DNS cache: live, correctly scoped answers with truthful TTLs.
//
// Drives the REAL cache code of package control (NewDnsController, cacheKey/responseCacheKey,
// NormalizeAndCacheDnsResp_ -> UpdateDnsCacheTtlWithKey -> __updateDnsCacheDeadline,
// LookupDnsRespCache_, evictExpiredDnsCache/evictLRUIfFull, CloneCacheForReload/RestoreReloadCache,
// ReuseForReload, backgroundRefresh's deferred completion, and the entry-level functions taking `now`).
//
// Time.  The production code calls time.Now() inline, so the harness keeps a *virtual clock*
// (virtual = real + adv).  "Advancing the clock by d" is done by moving every stored absolute
// timestamp of every cache entry d into the past; timestamps equal to 0 are "unset" sentinels in the
// code and are left alone.  The `now` an operation really used is read back exactly (a lookup stores it in
// lastAccessNano, an insert in OriginalDeadline-ttl) and reported, so model and spec are evaluated at
// exactly the instant the implementation used.  Stored time.Time values are stripped of their
// monotonic reading so that all comparisons are wall-clock comparisons on the reported numbers.

import (
	"encoding/json"
	"fmt"
	"io"
	"net/netip"
	"sort"
	"testing"
	"time"

	"github.com/daeuniverse/dae/common/consts"
	"github.com/daeuniverse/dae/config"
	"github.com/daeuniverse/dae/component/dns"
	dnsmessage "github.com/miekg/dns"
	"github.com/sirupsen/logrus"
)

type c08Cfg struct {
	Opt   bool           `json:"opt"`
	Ttl   int            `json:"ttl"`
	Max   int            `json:"max"`
	Fixed map[string]int `json:"fixed"`
}

type c08Scope struct {
	Kind   string `json:"kind"` // none | upstream | asis | asis0 | index | reject
	Scheme string `json:"scheme,omitempty"`
	Host   string `json:"host,omitempty"`
	Port   int    `json:"port,omitempty"`
	Path   string `json:"path,omitempty"`
	Addr   string `json:"addr,omitempty"` // asis: realDst addr:port
	Index  int    `json:"index,omitempty"`
}

type c08At struct {
	Mode string `json:"mode"` // adv: advance by d ; rel: to ref(key)+d (never backwards)
	Ref  string `json:"ref,omitempty"`
	D    int64  `json:"d"`
}

type c08Op struct {
	Op     string    `json:"op"` // insert lookup janitor reload reuse refresh_done probe
	Name   string    `json:"name,omitempty"`
	RName  string    `json:"rname,omitempty"` // question name echoed by the upstream (insert); default Name
	Qtype  uint16    `json:"qtype,omitempty"`
	Scope  *c08Scope `json:"scope,omitempty"`
	Ans    uint32    `json:"ans,omitempty"`
	Ttl    uint32    `json:"ttl,omitempty"`
	NAns   int       `json:"nans,omitempty"`
	Rcode  int       `json:"rcode,omitempty"`
	Cfg    *c08Cfg   `json:"cfg,omitempty"`
	At     c08At     `json:"at"`
	Window int       `json:"window,omitempty"` // probe: staleTtl argument
}

type c08Case struct {
	Cfg c08Cfg  `json:"cfg"`
	Ops []c08Op `json:"ops"`
}

type c08Entry struct {
	Key        string `json:"key"`
	Ans        int64  `json:"ans"`
	Deadline   int64  `json:"deadline"`
	ODeadline  int64  `json:"odeadline"`
	HasPacked  bool   `json:"has_packed"`
	PackedTtl  int64  `json:"pttl"`
	PackedAt   int64  `json:"pat"`
	DNano      int64  `json:"dnano"`
	Refreshing bool   `json:"refreshing"`
	Last       int64  `json:"last"`
}

type c08Served struct {
	Served  bool    `json:"served"`
	Ans     int64   `json:"ans"`
	Ttls    []int64 `json:"ttls"` // distinct TTLs over all RRs of the reply, sorted
	Refresh bool    `json:"refresh"`
	QName   string  `json:"qname,omitempty"`
	Err     string  `json:"err,omitempty"`
}

type c08Step struct {
	Now    int64       `json:"now"`              // virtual instant used by the operation (exact when Exact)
	NowHi  int64       `json:"now_hi"`           // upper bound when not exact
	Exact  bool        `json:"exact"`
	Key    string      `json:"key,omitempty"`    // cache key computed by the production key functions
	Res    *c08Served  `json:"res,omitempty"`    // lookup
	Order  []string    `json:"order,omitempty"`  // janitor: sync.Map Range order before the call
	Stale  *c08Served  `json:"stale,omitempty"`  // probe
	Packed *c08Served  `json:"packed,omitempty"` // probe
	Fill   *c08Served  `json:"fill,omitempty"`   // probe
	TtlFD  int64       `json:"ttlfd,omitempty"`  // probe: ttlFromDeadline
	Absent bool        `json:"absent,omitempty"` // probe on a key with no entry
	State  []c08Entry  `json:"state"`            // whole cache after the step (virtual times), sorted by key
	Cfg    [3]int64    `json:"cfg"`              // effective (enabled, ttl, max) after the step
	Err    string      `json:"err,omitempty"`
}

type c08Result struct {
	Steps []c08Step `json:"steps"`
	Panic string    `json:"panic,omitempty"`
}

func c08Logger() *logrus.Logger {
	l := logrus.New()
	l.SetOutput(io.Discard)
	l.SetLevel(logrus.PanicLevel)
	return l
}

func c08Option(cfg c08Cfg) *DnsControllerOption {
	// through the production parser of the fixed_domain_ttl section (control_plane.go)
	var lines []config.KeyableString
	keys := make([]string, 0, len(cfg.Fixed))
	for k := range cfg.Fixed {
		keys = append(keys, k)
	}
	sort.Strings(keys)
	for _, k := range keys {
		lines = append(lines, config.KeyableString(fmt.Sprintf("%s: %d", k, cfg.Fixed[k])))
	}
	fixed, err := ParseFixedDomainTtl(lines)
	if err != nil {
		panic("ParseFixedDomainTtl: " + err.Error())
	}
	return &DnsControllerOption{
		Log: c08Logger(),
		// same shape as ControlPlane.dnsControllerOption().NewCache (control_plane.go), minus the bitmap
		NewCache: func(fqdn string, answers, ns, extra []dnsmessage.RR, deadline time.Time, originalDeadline time.Time) (*DnsCache, error) {
			return &DnsCache{NS: ns, Extra: extra, Answer: answers, Deadline: deadline, OriginalDeadline: originalDeadline}, nil
		},
		FixedDomainTtl:     fixed,
		OptimisticCache:    cfg.Opt,
		OptimisticCacheTtl: cfg.Ttl,
		MaxCacheSize:       cfg.Max,
	}
}

func c08AnsRR(name string, qtype uint16, id uint32, ttl uint32, i int) dnsmessage.RR {
	switch qtype {
	case dnsmessage.TypeA:
		return &dnsmessage.A{Hdr: dnsmessage.RR_Header{Name: name, Rrtype: dnsmessage.TypeA, Class: dnsmessage.ClassINET, Ttl: ttl},
			A: []byte{10 + byte(i), byte(id >> 16), byte(id >> 8), byte(id)}}
	case dnsmessage.TypeAAAA:
		b := make([]byte, 16)
		b[0] = 0xfd
		b[1] = byte(i)
		b[12], b[13], b[14], b[15] = byte(id>>24), byte(id>>16), byte(id>>8), byte(id)
		return &dnsmessage.AAAA{Hdr: dnsmessage.RR_Header{Name: name, Rrtype: dnsmessage.TypeAAAA, Class: dnsmessage.ClassINET, Ttl: ttl}, AAAA: b}
	default:
		return &dnsmessage.TXT{Hdr: dnsmessage.RR_Header{Name: name, Rrtype: dnsmessage.TypeTXT, Class: dnsmessage.ClassINET, Ttl: ttl},
			Txt: []string{fmt.Sprintf("id=%d", id), fmt.Sprintf("i=%d", i)}}
	}
}

func c08AnsID(rr dnsmessage.RR) int64 {
	switch b := rr.(type) {
	case *dnsmessage.A:
		a := b.A.To4()
		if a == nil {
			return -1
		}
		return int64(a[1])<<16 | int64(a[2])<<8 | int64(a[3])
	case *dnsmessage.AAAA:
		a := b.AAAA
		if len(a) != 16 {
			return -1
		}
		return int64(a[12])<<24 | int64(a[13])<<16 | int64(a[14])<<8 | int64(a[15])
	case *dnsmessage.TXT:
		var id int64 = -1
		if len(b.Txt) > 0 {
			fmt.Sscanf(b.Txt[0], "id=%d", &id)
		}
		return id
	}
	return -1
}

func c08Parse(resp []byte, refresh bool) *c08Served {
	if resp == nil {
		return &c08Served{Served: false, Ans: -1, Ttls: []int64{}}
	}
	out := &c08Served{Served: true, Ans: -1, Ttls: []int64{}, Refresh: refresh}
	var m dnsmessage.Msg
	if err := m.Unpack(resp); err != nil {
		out.Err = "unpack: " + err.Error()
		return out
	}
	seen := map[int64]bool{}
	for _, sec := range [][]dnsmessage.RR{m.Answer, m.Ns, m.Extra} {
		for _, rr := range sec {
			seen[int64(rr.Header().Ttl)] = true
		}
	}
	for t := range seen {
		out.Ttls = append(out.Ttls, t)
	}
	sort.Slice(out.Ttls, func(i, j int) bool { return out.Ttls[i] < out.Ttls[j] })
	if len(m.Answer) > 0 {
		out.Ans = c08AnsID(m.Answer[0])
	}
	if len(m.Question) > 0 {
		out.QName = m.Question[0].Name
	}
	return out
}

type c08World struct {
	ctl *DnsController
	adv int64 // virtual = real + adv
	// entry whose refresh slot the latest stale hit of a key claimed (what the refresh started for it carries)
	claimed map[string]*DnsCache
}

func (w *c08World) vnow() int64 { return time.Now().UnixNano() + w.adv }

// advance the virtual clock by d >= 0: move every stored absolute timestamp d into the past.
func (w *c08World) advance(d int64) {
	if d <= 0 {
		w.normalise()
		return
	}
	w.adv += d
	w.ctl.dnsCache.Range(func(k, v any) bool {
		e := v.(*DnsCache)
		e.Deadline = e.Deadline.Round(0).Add(-time.Duration(d))
		e.OriginalDeadline = e.OriginalDeadline.Round(0).Add(-time.Duration(d))
		for _, a := range []interface {
			Load() int64
			Store(int64)
		}{&e.packedResponseCreatedAt, &e.deadlineNano, &e.lastAccessNano, &e.lastRouteSyncNano} {
			if x := a.Load(); x != 0 {
				a.Store(x - d)
			}
		}
		return true
	})
}

// strip monotonic clock readings so that every comparison in the code under test is a wall-clock one.
func (w *c08World) normalise() {
	w.ctl.dnsCache.Range(func(k, v any) bool {
		e := v.(*DnsCache)
		e.Deadline = e.Deadline.Round(0)
		e.OriginalDeadline = e.OriginalDeadline.Round(0)
		return true
	})
}

func (w *c08World) dump() []c08Entry {
	out := []c08Entry{}
	v := func(x int64) int64 {
		if x == 0 {
			return 0
		}
		return x + w.adv
	}
	w.ctl.dnsCache.Range(func(k, val any) bool {
		e := val.(*DnsCache)
		en := c08Entry{Key: k.(string), Ans: -1, Deadline: e.Deadline.UnixNano() + w.adv, ODeadline: e.OriginalDeadline.UnixNano() + w.adv,
			PackedTtl: int64(e.packedResponseTTL.Load()), PackedAt: v(e.packedResponseCreatedAt.Load()), DNano: v(e.deadlineNano.Load()),
			Refreshing: e.refreshing.Load(), Last: v(e.lastAccessNano.Load())}
		if p := e.packedResponse.Load(); p != nil && *p != nil {
			en.HasPacked = true
		}
		if len(e.Answer) > 0 {
			en.Ans = c08AnsID(e.Answer[0])
		}
		out = append(out, en)
		return true
	})
	sort.Slice(out, func(i, j int) bool { return out[i].Key < out[j].Key })
	return out
}

func (w *c08World) key(op *c08Op) string {
	base := w.ctl.cacheKey(op.Name, op.Qtype)
	var req *udpRequest
	var idx consts.DnsRequestOutboundIndex
	var up *dns.Upstream
	if sc := op.Scope; sc != nil {
		switch sc.Kind {
		case "upstream":
			up = &dns.Upstream{Scheme: dns.UpstreamScheme(sc.Scheme), Hostname: sc.Host, Port: uint16(sc.Port), Path: sc.Path}
			idx = consts.DnsRequestOutboundIndex(sc.Index)
		case "asis":
			idx = consts.DnsRequestOutboundIndex_AsIs
			req = &udpRequest{realDst: netip.MustParseAddrPort(sc.Addr)}
		case "asis0":
			idx = consts.DnsRequestOutboundIndex_AsIs
		case "index":
			idx = consts.DnsRequestOutboundIndex(sc.Index)
		case "reject":
			idx = consts.DnsRequestOutboundIndex_Reject
		}
	}
	return w.ctl.responseCacheKey(base, req, idx, up)
}

func (w *c08World) entry(key string) *DnsCache {
	if v, ok := w.ctl.dnsCache.Load(key); ok {
		return v.(*DnsCache)
	}
	return nil
}

// resolve the target instant of an op and move the clock there (never backwards).
func (w *c08World) moveTo(op *c08Op, key string) (target int64) {
	cur := w.vnow()
	target = cur + op.At.D
	if op.At.Mode == "rel" {
		if e := w.entry(key); e != nil {
			_, ttl, _ := w.ctl.currentOptimisticCacheConfig()
			switch op.At.Ref {
			case "deadline":
				target = e.Deadline.UnixNano() + w.adv + op.At.D
			case "odeadline":
				target = e.OriginalDeadline.UnixNano() + w.adv + op.At.D
			case "stale_end":
				target = e.Deadline.UnixNano() + w.adv + int64(ttl)*1e9 + op.At.D
			case "packed":
				target = e.packedResponseCreatedAt.Load() + w.adv + op.At.D
			}
		}
	}
	if target < cur {
		target = cur
	}
	w.advance(target - w.vnow())
	return target
}

func c08Run(cs c08Case) (res c08Result) {
	defer func() {
		if r := recover(); r != nil {
			res.Panic = fmt.Sprint(r)
		}
	}()
	ctl, err := NewDnsController(nil, c08Option(cs.Cfg))
	if err != nil {
		res.Panic = "NewDnsController: " + err.Error()
		return
	}
	w := &c08World{ctl: ctl}
	defer func() { _ = w.ctl.Close() }()

	for i := range cs.Ops {
		op := &cs.Ops[i]
		st := c08Step{}
		key := ""
		if op.Name != "" {
			key = w.key(op)
			st.Key = key
		}
		switch op.Op {
		case "insert":
			w.moveTo(op, key)
			rname := op.RName
			if rname == "" {
				rname = op.Name
			}
			msg := &dnsmessage.Msg{}
			msg.Response = true
			msg.Rcode = op.Rcode
			msg.Question = []dnsmessage.Question{{Name: rname, Qtype: op.Qtype, Qclass: dnsmessage.ClassINET}}
			for j := 0; j < op.NAns; j++ {
				msg.Answer = append(msg.Answer, c08AnsRR(dnsmessage.Fqdn(rname), op.Qtype, op.Ans, op.Ttl, j))
			}
			lo := w.vnow()
			if err := w.ctl.NormalizeAndCacheDnsResp_(msg, key); err != nil {
				st.Err = err.Error()
			}
			st.NowHi = w.vnow()
			st.Now = lo
			w.normalise()
			if e := w.entry(key); e != nil && e.packedResponseCreatedAt.Load()+w.adv >= lo {
				// the instant used: prepackResponseBeforeStore stored now.UnixNano()
				st.Now = e.packedResponseCreatedAt.Load() + w.adv
				st.Exact = true
			}
		case "lookup":
			w.moveTo(op, key)
			e := w.entry(key)
			msg := &dnsmessage.Msg{}
			msg.Id = 0x1234
			msg.RecursionDesired = true
			// a question read from the wire is always fully qualified; the key is computed from the raw text above
			msg.Question = []dnsmessage.Question{{Name: dnsmessage.Fqdn(op.Name), Qtype: op.Qtype, Qclass: dnsmessage.ClassINET}}
			lo := w.vnow()
			resp, claimedEntry := c08LookupClaim(w.ctl, msg, key) // shim over the lookup (tools/c08.py), see c08_shim
			refresh := claimedEntry != nil
			if refresh {
				if w.claimed == nil {
					w.claimed = map[string]*DnsCache{}
				}
				w.claimed[key] = claimedEntry
			}
			st.NowHi = w.vnow()
			st.Now = lo
			if e != nil {
				st.Now = e.lastAccessNano.Load() + w.adv // LookupDnsRespCache_ stored the `now` it used
				st.Exact = true
			}
			st.Res = c08Parse(resp, refresh)
		case "janitor":
			t := w.moveTo(op, key)
			w.ctl.dnsCache.Range(func(k, v any) bool { st.Order = append(st.Order, k.(string)); return true })
			w.ctl.evictExpiredDnsCache(time.Unix(0, t-w.adv))
			st.Now, st.NowHi, st.Exact = t, t, true
		case "refresh_done":
			// completion of a background refresh: the deferred block of backgroundRefresh (reached through
			// the real function with the Reject index, which returns before any network use).
			w.moveTo(op, key)
			lo := w.vnow()
			c08BackgroundRefresh(w.ctl, w.claimed[key], key)
			st.Now, st.NowHi = lo, w.vnow()
		case "reload":
			w.moveTo(op, key)
			lo := w.vnow()
			entries := w.ctl.CloneCacheForReload()
			old := w.ctl
			nc, err := NewDnsController(nil, c08Option(*op.Cfg))
			if err != nil {
				st.Err = err.Error()
				break
			}
			_ = old.Close()
			w.ctl = nc
			w.claimed = nil // the new generation holds clones: no old claim refers to any of its entries
			nc.RestoreReloadCache(entries, nil, time.Now())
			st.Now, st.NowHi = lo, w.vnow()
		case "reuse":
			w.moveTo(op, key)
			lo := w.vnow()
			nc, err := w.ctl.ReuseForReload(c08Option(*op.Cfg), nil)
			if err != nil {
				st.Err = err.Error()
				break
			}
			w.ctl = nc
			st.Now, st.NowHi = lo, w.vnow()
		case "probe":
			// entry-level functions that take `now`, at an exact synthetic instant; on a deep copy, no clock move
			e := w.entry(key)
			cur := w.vnow()
			t := cur + op.At.D
			if e == nil {
				st.Absent = true
				st.Now, st.NowHi, st.Exact = t, t, true
				break
			}
			_, ttl, _ := w.ctl.currentOptimisticCacheConfig()
			switch op.At.Ref {
			case "deadline":
				t = e.Deadline.UnixNano() + w.adv + op.At.D
			case "stale_end":
				t = e.Deadline.UnixNano() + w.adv + int64(ttl)*1e9 + op.At.D
			case "wstale_end":
				t = e.Deadline.UnixNano() + w.adv + int64(op.Window)*1e9 + op.At.D
			case "packed":
				t = e.packedResponseCreatedAt.Load() + w.adv + op.At.D
			}
			now := time.Unix(0, t-w.adv)
			st.Now, st.NowHi, st.Exact = t, t, true
			st.Stale = c08Parse(e.Clone().GetStaleResponse(now, op.Window), false)
			st.Packed = c08Parse(e.Clone().GetPackedResponseWithApproximateTTL(dnsmessage.Fqdn(op.Name), op.Qtype, now), false)
			msg := &dnsmessage.Msg{}
			msg.Question = []dnsmessage.Question{{Name: dnsmessage.Fqdn(op.Name), Qtype: op.Qtype, Qclass: dnsmessage.ClassINET}}
			st.Fill = c08Parse(e.Clone().fillIntoWithTTLInPlace(msg, now), false)
			st.TtlFD = int64(ttlFromDeadline(e.Deadline, now))
		default:
			st.Err = "unknown op " + op.Op
		}
		st.State = w.dump()
		en, ttl, mx := w.ctl.currentOptimisticCacheConfig()
		st.Cfg = [3]int64{0, int64(ttl), int64(mx)}
		if en {
			st.Cfg[0] = 1
		}
		res.Steps = append(res.Steps, st)
	}
	return res
}

func TestVerifC08(t *testing.T) {
	dnsCacheJanitorInterval = 1000 * time.Hour // the real janitor goroutine must never fire on real time
	verifEachLine(t, func(line []byte) any {
		var cs c08Case
		if err := json.Unmarshal(line, &cs); err != nil {
			t.Fatalf("bad case: %v", err)
		}
		return c08Run(cs)
	})
}

// TestVerifC08K: the production cacheKey for EVERY query type 0..65535 (one name): the part of the key after the
// canonical name, exactly as produced.  The driver compares the whole table with the model's rendering in Coq.
func TestVerifC08K(t *testing.T) {
	dnsCacheJanitorInterval = 1000 * time.Hour
	verifEachLine(t, func(line []byte) any {
		ctl, err := NewDnsController(nil, c08Option(c08Cfg{}))
		if err != nil {
			return map[string]any{"err": err.Error()}
		}
		defer func() { _ = ctl.Close() }()
		const name = "K.Example."
		canon := "k.example."
		out := make([]string, 0, 65536)
		bad := ""
		for q := 0; q < 65536; q++ {
			k := ctl.cacheKey(name, uint16(q))
			if len(k) < len(canon) || k[:len(canon)] != canon {
				bad = fmt.Sprintf("qtype %d: key %q does not start with the canonical name", q, k)
				out = append(out, "?")
				continue
			}
			out = append(out, k[len(canon):])
		}
		return map[string]any{"suffix": out, "bad": bad}
	})
}
