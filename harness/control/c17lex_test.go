//go:build verif

package control

// C17 — the generated ANTLR lexer alone: token types and texts, compared token by token with the model lexer.

import (
	"encoding/json"
	"fmt"
	"testing"

	"github.com/antlr/antlr4/runtime/Go/antlr/v4"
	"github.com/daeuniverse/dae-config-dist/go/dae_config"
)

type c17LexTok struct {
	T int    `json:"t"`
	S string `json:"s"`
}

type c17LexRes struct {
	Toks   []c17LexTok `json:"toks"`
	Errors int         `json:"errors"`
	Panic  string      `json:"panic,omitempty"`
}

type c17ErrCounter struct {
	*antlr.DefaultErrorListener
	n int
}

func (c *c17ErrCounter) SyntaxError(recognizer antlr.Recognizer, offendingSymbol any, line, column int, msg string, e antlr.RecognitionException) {
	c.n++
}

func c17Lex(text string) (res c17LexRes) {
	defer func() {
		if r := recover(); r != nil {
			res = c17LexRes{Panic: fmt.Sprint(r)}
		}
	}()
	el := &c17ErrCounter{DefaultErrorListener: antlr.NewDefaultErrorListener()}
	lexer := dae_config.Newdae_configLexer(antlr.NewInputStream(text))
	lexer.RemoveErrorListeners()
	lexer.AddErrorListener(el)
	for _, t := range lexer.GetAllTokens() {
		res.Toks = append(res.Toks, c17LexTok{T: t.GetTokenType(), S: t.GetText()})
	}
	res.Errors = el.n
	return res
}

func TestVerifC17Lex(t *testing.T) {
	verifEachLine(t, func(line []byte) any {
		var req c17Req
		if err := json.Unmarshal(line, &req); err != nil {
			return c17LexRes{Panic: "harness: bad request: " + err.Error()}
		}
		return c17Lex(c17Text(req.Text))
	})
}
