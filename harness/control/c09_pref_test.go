//go:build verif

package control

// C09 "pref" family: ip_version_prefer.  Two concurrent questions (A and AAAA) for one name on the real
// controller; the scripted upstream answers them in the order the history names; the preference wait is
// driven without wall-clock verdicts: the check's build-time overlay turns the PreferenceResolutionDelay
// constant into a variable, which is set very long for "the preferred answer arrives in time" (the wait is
// then ended by the notification) and to zero for "timed out" (waitFor returns at once).

import (
	"context"
	"fmt"
	"io"
	"net/netip"
	"runtime"
	"strings"
	"sync"
	"time"

	"github.com/daeuniverse/dae/common/consts"
	componentdns "github.com/daeuniverse/dae/component/dns"
	"github.com/daeuniverse/dae/config"
	dnsmessage "github.com/miekg/dns"
	"github.com/sirupsen/logrus"
)

type c09PrefCase struct {
	Prefer int       `json:"prefer"` // 4 | 6
	Order  string    `json:"order"`  // n_in_time | n_timeout | p_first
	CN     c09Client `json:"cN"`
	CP     c09Client `json:"cP"`
	MN     c09Msg    `json:"mN"`
	MP     c09Msg    `json:"mP"`
	LN     c09Client `json:"lN"`
	LP     c09Client `json:"lP"`
}

type c09PrefResult struct {
	Kind      string       `json:"kind"`
	Outcomes  []c09Outcome `json:"outcomes"` // cN, cP, lN, lP
	Calls     int          `json:"calls"`
	Stuck     bool         `json:"stuck,omitempty"`
	Dump      string       `json:"dump,omitempty"`
	ElapsedMs int64        `json:"elapsed_ms"`
	Panic     string       `json:"panic,omitempty"`
}

//go:noinline
func c09PrefGate(ch chan struct{}) { <-ch }

//go:noinline
func c09PrefClientMain(ctrl *DnsController, q *dnsmessage.Msg, req *udpRequest, w *c09Writer) error {
	return ctrl.HandleWithResponseWriter_(context.Background(), q, req, w)
}

func c09RunPref(cs c09PrefCase) (res c09PrefResult) {
	res.Kind = "pref"
	t0 := time.Now()
	defer func() { res.ElapsedMs = time.Since(t0).Milliseconds() }()
	defer func() {
		if r := recover(); r != nil {
			res.Panic = fmt.Sprint(r)
		}
	}()
	stuck := func() {
		res.Stuck = true
		if res.Dump == "" {
			res.Dump = c09Dump()
		}
	}
	oldDelay := PreferenceResolutionDelay
	defer func() { PreferenceResolutionDelay = oldDelay }()
	log := logrus.New()
	log.SetOutput(io.Discard)
	routing, err := componentdns.New(&config.Dns{
		Upstream: []config.KeyableString{"u:udp://198.51.100.53:53"},
		Routing: config.DnsRouting{
			Request:  config.DnsRequestRouting{Fallback: "u"},
			Response: config.DnsResponseRouting{Fallback: "accept"},
		},
	}, &componentdns.NewOption{Logger: log, UpstreamReadyCallback: func(*componentdns.Upstream) error { return nil }})
	if err != nil {
		panic(err)
	}
	var mu sync.Mutex
	gates := map[uint16]chan struct{}{cs.CN.QType: make(chan struct{}), cs.CP.QType: make(chan struct{})}
	opened := map[uint16]bool{}
	open := func(t uint16) {
		if !opened[t] {
			opened[t] = true
			close(gates[t])
		}
	}
	original := dnsForwarderFactory
	defer func() { dnsForwarderFactory = original }()
	dnsForwarderFactory = func(upstream *componentdns.Upstream, dialArg dialArgument, _ *logrus.Logger) (DnsForwarder, error) {
		return &stubDnsForwarder{forward: func(ctx context.Context, data []byte) (*dnsmessage.Msg, error) {
			var q dnsmessage.Msg
			if err := q.Unpack(data); err != nil || len(q.Question) == 0 {
				return nil, fmt.Errorf("c09: bad query")
			}
			mu.Lock()
			res.Calls++
			mu.Unlock()
			t := q.Question[0].Qtype
			if g, ok := gates[t]; ok {
				c09PrefGate(g)
			}
			if t == cs.CN.QType {
				return c09Build(cs.MN), nil
			}
			return c09Build(cs.MP), nil
		}}, nil
	}
	ctrl, err := NewDnsController(routing, &DnsControllerOption{
		Log:                 log,
		LifecycleContext:    context.Background(),
		CacheAccessCallback: func(*DnsCache) error { return nil },
		CacheRemoveCallback: func(*DnsCache) error { return nil },
		NewCache: func(fqdn string, answers, ns, extra []dnsmessage.RR, deadline, originalDeadline time.Time) (*DnsCache, error) {
			return &DnsCache{Answer: answers, NS: ns, Extra: extra, Deadline: deadline, OriginalDeadline: originalDeadline}, nil
		},
		BestDialerChooser: func(ctx context.Context, req *udpRequest, upstream *componentdns.Upstream) (*dialArgument, error) {
			return &dialArgument{l4proto: consts.L4ProtoStr_UDP, ipversion: consts.IpVersionStr_4, bestTarget: netip.MustParseAddrPort("198.51.100.53:53")}, nil
		},
		TimeoutExceedCallback: func(*dialArgument, error) {},
		IpVersionPrefer:       cs.Prefer,
	})
	if err != nil {
		panic(err)
	}
	defer ctrl.Close()
	req := &udpRequest{realSrc: netip.MustParseAddrPort("192.0.2.10:41000"), realDst: netip.MustParseAddrPort("192.0.2.1:53"), routingResult: &bpfRoutingResult{}}

	type run struct {
		w    *c09Writer
		err  error
		done chan struct{}
	}
	start := func(c c09Client) *run {
		r := &run{w: &c09Writer{}, done: make(chan struct{})}
		go func() {
			defer close(r.done)
			defer func() {
				if p := recover(); p != nil {
					r.err = fmt.Errorf("panic: %v", p)
				}
			}()
			r.err = c09PrefClientMain(ctrl, c09Query(c.ID, c.Name, c.QType), req, r.w)
		}()
		return r
	}
	waitDone := func(r *run) {
		select {
		case <-r.done:
		case <-time.After(c09D(60 * time.Second)):
			stuck()
		}
	}
	// event-driven: poll the goroutine dump until n client goroutines are parked in `marker`
	waitParked := func(marker string, n int, base time.Duration) bool {
		deadline := time.Now().Add(c09D(base))
		pause := 200 * time.Microsecond
		for time.Now().Before(deadline) {
			buf := make([]byte, 1<<20)
			k := runtime.Stack(buf, true)
			cnt := 0
			for _, g := range strings.Split(string(buf[:k]), "\n\n") {
				if strings.Contains(g, "c09PrefClientMain") && strings.Contains(g, marker) {
					cnt++
				}
			}
			if cnt >= n {
				return true
			}
			time.Sleep(pause)
			if pause < 20*time.Millisecond {
				pause *= 2
			}
		}
		return false
	}
	outcome := func(r *run) c09Outcome {
		r.w.mu.Lock()
		defer r.w.mu.Unlock()
		switch {
		case len(r.w.msgs) > 0:
			o := c09Outcome{Res: "reply", M: c09Decode(r.w.msgs[0])}
			if len(r.w.msgs) > 1 {
				o.Err = fmt.Sprintf("%d replies", len(r.w.msgs))
			}
			return o
		case r.err != nil:
			return c09Outcome{Res: "error", Err: r.err.Error()}
		}
		return c09Outcome{Res: "none"}
	}

	if cs.Order == "n_in_time" {
		PreferenceResolutionDelay = 24 * time.Hour // ended by the notification, never by the clock
	} else {
		PreferenceResolutionDelay = 0 // the deadline has passed when waitFor looks at it
	}
	rN, rP := start(cs.CN), start(cs.CP)
	if !waitParked("c09PrefGate", 2, 60*time.Second) {
		stuck()
	}
	switch cs.Order {
	case "n_in_time":
		open(cs.CN.QType)
		if !waitParked("preferenceWait).waitFor", 1, 15*time.Second) {
			stuck()
			PreferenceResolutionDelay = 0
		}
		open(cs.CP.QType)
		waitDone(rP)
		waitDone(rN)
	case "n_timeout":
		open(cs.CN.QType)
		waitDone(rN)
		open(cs.CP.QType)
		waitDone(rP)
	default:
		open(cs.CP.QType)
		waitDone(rP)
		open(cs.CN.QType)
		waitDone(rN)
	}
	open(cs.CN.QType)
	open(cs.CP.QType)
	PreferenceResolutionDelay = 0
	// (a wait registered with the 24 h deadline and never notified would block: none is left here)
	lN := start(cs.LN)
	waitDone(lN)
	lP := start(cs.LP)
	waitDone(lP)
	res.Outcomes = []c09Outcome{outcome(rN), outcome(rP), outcome(lN), outcome(lP)}
	return res
}
