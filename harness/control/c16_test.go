//go:build verif

package control

// C16 harness: drives real Dialers (no network: probes are supplied as functions), real DialerGroups with
// their AliveDialerSets, the real reload hand-over (*ControlPlane).InheritDialerHealthFrom and the real
// outboundConnectivityMapKey, over a history of health events; prints one canonical observation per step.

import (
	"context"
	"encoding/json"
	"errors"
	"fmt"
	"io"
	"net"
	"testing"
	"time"

	"github.com/daeuniverse/dae/common/consts"
	commonerrors "github.com/daeuniverse/dae/common/errors"
	"github.com/daeuniverse/dae/component/outbound"
	"github.com/daeuniverse/dae/component/outbound/dialer"
	D "github.com/daeuniverse/outbound/dialer"
	"github.com/daeuniverse/outbound/protocol/direct"
	"github.com/sirupsen/logrus"
)

type c16Dialer struct {
	Addr string `json:"addr"`
	// Name of the node.  Two entries with the same name are two dialer INSTANCES of one node (what NewControlPlane
	// creates for a group that overrides the check options); default: a unique name per entry.
	Name string `json:"name"`
}

type c16Group struct {
	Policy  string  `json:"policy"` // min_last | min_avg10 | min_moving_avg | random | fixed
	Members []int   `json:"members"`
	Offsets []int64 `json:"offsets"` // ns, one per member
	Oid     *int    `json:"oid"`     // outbound id of the group (default: index + 2; 0 and 1 are direct and block)
}

func (g c16Group) oid(gi int) uint8 {
	if g.Oid != nil {
		return uint8(*g.Oid)
	}
	return uint8(gi + 2)
}

type c16Op struct {
	Op   string `json:"op"` // fail | probe_ok | probe_skip | traffic_ok | supp_begin | supp_end | quiesce | reset_global | reload
	N    int    `json:"n"`
	Dom  int    `json:"dom"`  // 0 tcp4 1 tcp6 2 dnsudp4 3 dnsudp6 4 dataudp4 5 dataudp6
	Kind string `json:"kind"` // fail: check | trans | traffic | forced
	Err  string `json:"err"`
	Alt  bool   `json:"alt"` // use the alternative spelling of the network type (IsDns / unset udp domain)
	// op "probe2": one run of the real two-attempt probe driver with a scripted dial function
	A1     string `json:"a1"`     // genuine outcome of attempt 1: ok | err | skip
	A2     string `json:"a2"`     // genuine outcome of attempt 2 (if it runs)
	Cancel string `json:"cancel"` // when teardown cancels the dialer's context: none | before | between | during2 | after
}

type c16Case struct {
	Dialers   []c16Dialer `json:"dialers"`
	Groups    []c16Group  `json:"groups"`
	Tolerance int64       `json:"tolerance"`
	Ops       []c16Op     `json:"ops"`
}

type c16Set struct {
	G       int     `json:"g"`
	Dom     int     `json:"dom"`
	Members []int   `json:"members"`
	Lats    []int64 `json:"lats"`
	Best    int     `json:"best"` // -1 none
	BestLat int64   `json:"best_lat"`
}

type c16Step struct {
	Ign     bool       `json:"ign"`   // answer of the real error classification for this op's error
	Trans   [][3]int   `json:"trans"` // alive-transition callbacks in order: dialer, dom, alive
	Bits    [][4]int   `json:"bits"`  // connectivity writes in order: group, dom, key, value
	Dialers [][8][3]int `json:"dialers"`
	Sets    []c16Set   `json:"sets"`
	Addr    []int      `json:"addr"` // death counter per distinct address (order of first appearance)
	Supp    [2]int     `json:"supp"`
	Lats    [][5]int64 `json:"lats"` // dialer, group, dom, has, raw(ns): policy latency as the sets see it
	Sel     [][3]int   `json:"sel"`  // after reload: group, dom, 1 if SelectWithExclusionResult(strict) finds a node
}

type c16Result struct {
	Init  c16Step   `json:"init"`
	Steps []c16Step `json:"steps"`
	Keys  [][3]int  `json:"keys"` // outbound id, dom, key
	Panic string    `json:"panic,omitempty"`
}

func c16Name(dc c16Dialer, i int) string {
	if dc.Name != "" {
		return dc.Name
	}
	return fmt.Sprintf("node%d", i)
}

func c16Type(dom int, alt bool) *dialer.NetworkType {
	v := consts.IpVersionStr_4
	if dom%2 == 1 {
		v = consts.IpVersionStr_6
	}
	switch dom / 2 {
	case 0:
		return &dialer.NetworkType{L4Proto: consts.L4ProtoStr_TCP, IpVersion: v, IsDns: alt}
	case 1:
		// udp_lifecycle spells DNS-UDP with IsDns=false
		return &dialer.NetworkType{L4Proto: consts.L4ProtoStr_UDP, IpVersion: v, IsDns: !alt, UdpHealthDomain: dialer.UdpHealthDomainDns}
	default:
		if alt {
			return &dialer.NetworkType{L4Proto: consts.L4ProtoStr_UDP, IpVersion: v}
		}
		return &dialer.NetworkType{L4Proto: consts.L4ProtoStr_UDP, IpVersion: v, UdpHealthDomain: dialer.UdpHealthDomainData}
	}
}

func c16Dom(nt *dialer.NetworkType) int {
	d := 0
	if nt.L4Proto == consts.L4ProtoStr_UDP {
		if nt.EffectiveUdpHealthDomain() == dialer.UdpHealthDomainDns {
			d = 2
		} else {
			d = 4
		}
	}
	if nt.IpVersion == consts.IpVersionStr_6 {
		d++
	}
	return d
}

func c16Err(kind string) error {
	switch kind {
	case "timeout":
		return errors.New("i/o timeout")
	case "refused":
		return errors.New("connect: connection refused")
	case "eof":
		return io.EOF
	case "deadline":
		return context.DeadlineExceeded
	case "canceled":
		return context.Canceled
	case "canceled_wrapped":
		return fmt.Errorf("dial tcp: %w", context.Canceled)
	case "closed":
		return net.ErrClosed
	case "closed_str":
		return errors.New("read udp 1.2.3.4:5: use of closed network connection")
	case "op_canceled":
		return errors.New("dial: operation was canceled")
	case "nil":
		return nil
	}
	panic("bad err kind " + kind)
}

func c16Policy(p string) outbound.DialerSelectionPolicy {
	switch p {
	case "min_last":
		return outbound.DialerSelectionPolicy{Policy: consts.DialerSelectionPolicy_MinLastLatency}
	case "min_avg10":
		return outbound.DialerSelectionPolicy{Policy: consts.DialerSelectionPolicy_MinAverage10Latencies}
	case "min_moving_avg":
		return outbound.DialerSelectionPolicy{Policy: consts.DialerSelectionPolicy_MinMovingAverageLatencies}
	case "random":
		return outbound.DialerSelectionPolicy{Policy: consts.DialerSelectionPolicy_Random}
	case "fixed":
		return outbound.DialerSelectionPolicy{Policy: consts.DialerSelectionPolicy_Fixed, FixedIndex: 0}
	}
	panic("bad policy " + p)
}

type c16World struct {
	cs      c16Case
	log     *logrus.Logger
	opt     *dialer.GlobalOption
	dialers []*dialer.Dialer
	id      map[*dialer.Dialer]int
	groups  []*outbound.DialerGroup
	trans   [][3]int
	bits    [][4]int
	addrs   []string
	gen     int
}

func (w *c16World) build() {
	w.gen++
	gen := w.gen
	w.dialers = nil
	w.id = map[*dialer.Dialer]int{}
	for i, dc := range w.cs.Dialers {
		i := i
		d := dialer.NewDialer(direct.SymmetricDirect, w.opt, dialer.InstanceOption{DisableCheck: true},
			&dialer.Property{Property: D.Property{Name: c16Name(dc, i), Address: dc.Addr}})
		d.RegisterAliveTransitionCallback(func(nt *dialer.NetworkType, alive bool) {
			if gen != w.gen {
				return
			}
			a := 0
			if alive {
				a = 1
			}
			w.trans = append(w.trans, [3]int{i, c16Dom(nt), a})
		})
		w.dialers = append(w.dialers, d)
		w.id[d] = i
	}
	w.groups = nil
	for gi, gc := range w.cs.Groups {
		gi := gi
		var ds []*dialer.Dialer
		var an []*dialer.Annotation
		for k, m := range gc.Members {
			ds = append(ds, w.dialers[m])
			an = append(an, &dialer.Annotation{AddLatency: time.Duration(gc.Offsets[k])})
		}
		g := outbound.NewDialerGroup(w.opt, fmt.Sprintf("group%d", gi), ds, an, c16Policy(gc.Policy),
			func(alive bool, nt *dialer.NetworkType, isInit bool) {
				if gen != w.gen {
					return
				}
				v := 0
				if alive {
					v = 1
				}
				// the slot the control plane writes for this outbound id (outboundAliveChangeCallback's key)
				w.bits = append(w.bits, [4]int{gi, c16Dom(nt), int(outboundConnectivityMapKey(gc.oid(gi), nt)), v})
			})
		w.groups = append(w.groups, g)
	}
}

func (w *c16World) closeGen(ds []*dialer.Dialer, gs []*outbound.DialerGroup) {
	for _, g := range gs {
		_ = g.Close()
	}
	for _, d := range ds {
		_ = d.Close()
	}
}

func (w *c16World) observe(st *c16Step, latFor []int) {
	st.Trans = append([][3]int{}, w.trans...)
	st.Bits = append([][4]int{}, w.bits...)
	w.trans, w.bits = nil, nil
	for _, d := range w.dialers {
		hs := d.HealthSnapshot()
		var row [8][3]int
		for i := 0; i < 8; i++ {
			a := 0
			if hs.Collections[i].Alive {
				a = 1
			}
			row[i] = [3]int{a, hs.Collections[i].FailCount, int(hs.Collections[i].TrafficFailCount)}
		}
		st.Dialers = append(st.Dialers, row)
	}
	st.Sets = []c16Set{}
	for gi, g := range w.groups {
		for dom := 0; dom < 6; dom++ {
			set := g.MustGetAliveDialerSet(c16Type(dom, false))
			if set == nil {
				continue
			}
			dump := dialer.VerifC16DumpSet(set)
			s := c16Set{G: gi, Dom: dom, Members: []int{}, Lats: []int64{}, Best: -1, BestLat: int64(dump.BestLat)}
			for k, m := range dump.Members {
				s.Members = append(s.Members, w.id[m])
				s.Lats = append(s.Lats, int64(dump.Lats[k]))
			}
			if dump.Best != nil {
				s.Best = w.id[dump.Best]
			}
			if set.Len() != len(s.Members) {
				panic("Len disagrees with dump")
			}
			st.Sets = append(st.Sets, s)
		}
	}
	st.Addr = []int{}
	for _, a := range w.addrs {
		st.Addr = append(st.Addr, int(dialer.VerifC16ProxyFailures(a)))
	}
	cnt, win := dialer.VerifC16Suppression()
	st.Supp = [2]int{int(cnt), 0}
	if win {
		st.Supp[1] = 1
	}
	st.Lats = [][5]int64{}
	for _, n := range latFor {
		for gi, g := range w.groups {
			member := false
			for _, m := range w.cs.Groups[gi].Members {
				if m == n {
					member = true
				}
			}
			if !member {
				continue
			}
			for dom := 0; dom < 6; dom++ {
				if g.MustGetAliveDialerSet(c16Type(dom, false)) == nil {
					continue
				}
				raw, has := dialer.VerifC16PolicyLatency(w.dialers[n], c16Type(dom, false), g.GetSelectionPolicy())
				h := int64(0)
				if has {
					h = 1
				}
				st.Lats = append(st.Lats, [5]int64{int64(n), int64(gi), int64(dom), h, int64(raw)})
			}
		}
	}
}

func c16Run(cs c16Case) (res c16Result) {
	defer func() {
		if r := recover(); r != nil {
			res.Panic = fmt.Sprint(r)
		}
	}()
	dialer.VerifC16ResetAll()
	log := logrus.New()
	log.SetOutput(io.Discard)
	log.SetLevel(logrus.PanicLevel)
	w := &c16World{cs: cs, log: log}
	w.opt = &dialer.GlobalOption{Log: log, CheckInterval: 10 * time.Second, CheckTolerance: time.Duration(cs.Tolerance)}
	seen := map[string]bool{}
	for _, d := range cs.Dialers {
		if d.Addr != "" && !seen[d.Addr] {
			seen[d.Addr] = true
			w.addrs = append(w.addrs, d.Addr)
		}
	}
	w.build()
	defer func() { w.closeGen(w.dialers, w.groups) }()
	all := make([]int, len(cs.Dialers))
	for i := range all {
		all[i] = i
	}
	w.observe(&res.Init, all)
	res.Keys = [][3]int{}
	for gi := range w.groups {
		for dom := 0; dom < 6; dom++ {
			res.Keys = append(res.Keys, [3]int{int(cs.Groups[gi].oid(gi)), dom, int(outboundConnectivityMapKey(cs.Groups[gi].oid(gi), c16Type(dom, false)))})
		}
	}
	for _, op := range cs.Ops {
		var st c16Step
		latFor := []int{}
		switch op.Op {
		case "fail":
			d := w.dialers[op.N]
			typ := c16Type(op.Dom, op.Alt)
			err := c16Err(op.Err)
			latFor = []int{op.N}
			switch op.Kind {
			case "check":
				st.Ign = errors.Is(err, context.Canceled)
				_, _ = dialer.VerifC16Check(d, typ, func(ctx context.Context, t *dialer.NetworkType) (bool, error) { return false, err })
			case "trans":
				st.Ign = commonerrors.IsCanceledOrClosed(err)
				d.ReportUnavailableTransactional(typ, err)
			case "traffic":
				st.Ign = commonerrors.IsCanceledOrClosed(err)
				d.ReportUnavailable(typ, err)
			case "forced":
				st.Ign = commonerrors.IsCanceledOrClosed(err)
				d.ReportUnavailableForced(typ, err)
			default:
				panic("bad kind")
			}
		case "probe_ok":
			latFor = []int{op.N}
			_, _ = dialer.VerifC16Check(w.dialers[op.N], c16Type(op.Dom, op.Alt), func(ctx context.Context, t *dialer.NetworkType) (bool, error) { return true, nil })
		case "probe_skip":
			latFor = []int{op.N}
			_, _ = dialer.VerifC16Check(w.dialers[op.N], c16Type(op.Dom, op.Alt), func(ctx context.Context, t *dialer.NetworkType) (bool, error) { return false, nil })
		case "probe2":
			latFor = []int{op.N}
			d := w.dialers[op.N]
			calls := 0
			fn := func(ctx context.Context, t *dialer.NetworkType) (bool, error) {
				calls++
				if ctx.Err() != nil { // like a real dial: a cancelled context yields context.Canceled
					return false, fmt.Errorf("dial tcp: %w", ctx.Err())
				}
				out := op.A1
				if calls >= 2 {
					out = op.A2
				}
				if calls == 2 && op.Cancel == "during2" {
					_ = d.Close() // teardown while the retry is in flight
					return false, fmt.Errorf("dial tcp: %w", context.Canceled)
				}
				ok, err := false, error(nil)
				switch out {
				case "ok":
					ok = true
				case "err":
					err = errors.New("connect: connection refused")
				case "skip":
				default:
					panic("bad attempt outcome " + out)
				}
				if calls == 1 && op.Cancel == "between" {
					_ = d.Close() // teardown after the first attempt's result is determined, before the retry starts
				}
				return ok, err
			}
			if op.Cancel == "before" {
				_ = d.Close()
			}
			_, _ = dialer.VerifC16Check(d, c16Type(op.Dom, op.Alt), fn)
			if op.Cancel == "after" {
				_ = d.Close()
			}
		case "traffic_ok":
			latFor = []int{op.N}
			w.dialers[op.N].ReportAvailableTraffic(c16Type(op.Dom, op.Alt))
		case "supp_begin":
			dialer.BeginReloadProxyFailureSuppression()
		case "supp_end":
			dialer.EndReloadProxyFailureSuppression()
		case "quiesce":
			dialer.VerifC16QuiesceElapsed()
		case "reset_global":
			dialer.ResetGlobalProxyStateForReload()
		case "reload":
			oldD, oldG := w.dialers, w.groups
			prev := &ControlPlane{controlPlaneGenerationState: controlPlaneGenerationState{outbounds: oldG}}
			w.trans, w.bits = nil, nil
			w.build()
			next := &ControlPlane{controlPlaneGenerationState: controlPlaneGenerationState{outbounds: w.groups}}
			next.InheritDialerHealthFrom(prev)
			w.closeGen(oldD, oldG)
			latFor = all
			for gi, g := range w.groups {
				for dom := 0; dom < 6; dom++ {
					ok := 0
					if dd, _, _, err := g.SelectWithExclusionResult(c16Type(dom, false), true, nil); err == nil && dd != nil {
						ok = 1
					}
					st.Sel = append(st.Sel, [3]int{gi, dom, ok})
				}
			}
		default:
			panic("bad op " + op.Op)
		}
		w.observe(&st, latFor)
		res.Steps = append(res.Steps, st)
	}
	return res
}

func TestVerifC16(t *testing.T) {
	verifEachLine(t, func(line []byte) any {
		var cs c16Case
		if err := json.Unmarshal(line, &cs); err != nil {
			t.Fatalf("bad case: %v", err)
		}
		return c16Run(cs)
	})
}
