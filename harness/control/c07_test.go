//go:build verif

package control

// C07 harness, controller part.  REAL dns.New + NewDnsController + HandleWithResponseWriter_ (route first, reject
// clears the cache family, cache lookup, singleflight, dialSend with response routing and re-asks) over scripted
// upstream forwarders installed through the package variable dnsForwarderFactory.  Observed per question: the
// reply (answer section or error), the upstreams queried in order, the cache keys and answers afterwards.
// A "reload" step swaps the routing (same upstreams) through UpdateRuntime and keeps the cache.

import (
	"context"
	"encoding/json"
	"fmt"
	"io"
	"net"
	"net/netip"
	"net/url"
	"regexp"
	"sort"
	"strconv"
	"strings"
	"sync"
	"testing"
	"time"

	"github.com/daeuniverse/dae/common/assets"
	"github.com/daeuniverse/dae/common/consts"
	"github.com/daeuniverse/dae/common/netutils"
	componentdns "github.com/daeuniverse/dae/component/dns"
	"github.com/daeuniverse/dae/config"
	"github.com/daeuniverse/dae/pkg/config_parser"
	dnsmessage "github.com/miekg/dns"
	"github.com/sirupsen/logrus"
)

type c07Cond struct {
	F      string      `json:"f"`
	Not    bool        `json:"not"`
	Params [][2]string `json:"params"`
}
type c07Rule struct {
	Conds  []c07Cond `json:"conds"`
	Target string    `json:"target"`
}
type c07Routing struct {
	Rules    []c07Rule `json:"rules"`
	Fallback string    `json:"fallback"`
}
type c07Step struct {
	Kind   string                `json:"kind"` // ask | reload
	Name   string                `json:"name"`
	QType  uint16                `json:"qtype"`
	Script map[string][][]string `json:"script"` // source code ("253" as-is, "i" upstream) -> per query: answer rrs, or ["FAIL"]
	Req    *c07Routing           `json:"req"`
	Resp   *c07Routing           `json:"resp"`
}
type c07CtlCase struct {
	Ups     []string          `json:"ups"`
	Urls    []string          `json:"urls"`    // upstream URL per tag (default: udp://10.0.x.y:53, all different addresses)
	Resolve map[string]string `json:"resolve"` // host name -> address for upstream hosts that are not IP literals
	Req   c07Routing `json:"req"`
	Resp  c07Routing `json:"resp"`
	Steps []c07Step  `json:"steps"`
	Regex []string   `json:"regex"`
}
type c07CacheEntry struct {
	Key string   `json:"key"`
	Ans []string `json:"ans"`
}
type c07StepRes struct {
	Kind  string          `json:"kind"`
	Out   string          `json:"out"` // reply | error | none
	Err   string          `json:"err,omitempty"`
	Ans   []string        `json:"ans"`
	Asked []int           `json:"asked"` // source codes of the upstreams handed to BestDialerChooser (the chosen ones)
	Built []int           `json:"built"` // source codes of the upstreams the forwarders that carried the queries were created for
	Cache []c07CacheEntry `json:"cache"`
	Hits  []string        `json:"hits"`
}
type c07Ident struct {
	Code   int    `json:"code"`
	Scheme string `json:"scheme"`
	Host   string `json:"host"`
	Port   uint16 `json:"port"`
	Path   string `json:"path"`
	L4     int    `json:"l4"` // 1 tcp, 2 udp: what the harness's chooser answers for this upstream
	Ip     string `json:"ip"`
}
type c07CtlResult struct {
	Ids    []c07Ident        `json:"ids"`
	NewErr string            `json:"new_err,omitempty"`
	Panic  string            `json:"panic,omitempty"`
	Scopes map[string]string `json:"scopes"` // cache-key scope text -> source code
	Steps  []c07StepRes      `json:"steps"`
}

func c07Rules(rs []c07Rule) []*config_parser.RoutingRule {
	out := make([]*config_parser.RoutingRule, 0, len(rs))
	for _, r := range rs {
		rule := &config_parser.RoutingRule{Outbound: config_parser.Function{Name: r.Target}}
		for _, c := range r.Conds {
			f := &config_parser.Function{Name: c.F, Not: c.Not}
			for _, p := range c.Params {
				f.Params = append(f.Params, &config_parser.Param{Key: p[0], Val: p[1]})
			}
			rule.AndFunctions = append(rule.AndFunctions, f)
		}
		out = append(out, rule)
	}
	return out
}

func c07Url(cs *c07CtlCase, i int) string {
	if i < len(cs.Urls) && cs.Urls[i] != "" {
		return cs.Urls[i]
	}
	return fmt.Sprintf("udp://10.0.%d.%d:53", i/250, 1+i%250)
}

func c07L4(scheme componentdns.UpstreamScheme) int {
	switch scheme {
	case componentdns.UpstreamScheme_UDP, componentdns.UpstreamScheme_QUIC, componentdns.UpstreamScheme_H3, componentdns.UpstreamScheme_TCP_UDP:
		return 2
	}
	return 1
}

func c07NewRouting(log *logrus.Logger, cs *c07CtlCase, req, resp *c07Routing) (*componentdns.Dns, error) {
	conf := &config.Dns{}
	for i, tag := range cs.Ups {
		conf.Upstream = append(conf.Upstream, config.KeyableString(tag+":"+c07Url(cs, i)))
	}
	conf.Routing.Request.Rules = c07Rules(req.Rules)
	conf.Routing.Request.Fallback = req.Fallback
	conf.Routing.Response.Rules = c07Rules(resp.Rules)
	conf.Routing.Response.Fallback = resp.Fallback
	return componentdns.New(conf, &componentdns.NewOption{Logger: log, LocationFinder: assets.NewLocationFinder(nil),
		UpstreamReadyCallback: func(*componentdns.Upstream) error { return nil },
		UpstreamHostResolver: func(ctx context.Context, host string, network string) (*netutils.Ip46, error, error) {
			ip, ok := cs.Resolve[host]
			if !ok {
				e := fmt.Errorf("c07: no address scripted for %q", host)
				return nil, e, e
			}
			return &netutils.Ip46{Ip4: netip.MustParseAddr(ip)}, nil, fmt.Errorf("c07: no AAAA")
		}})
}

func c07RRs(rrs []dnsmessage.RR) []string {
	out := []string{}
	for _, rr := range rrs {
		switch b := rr.(type) {
		case *dnsmessage.A:
			ip, _ := netip.AddrFromSlice(b.A)
			out = append(out, "A:"+ip.Unmap().String())
		case *dnsmessage.AAAA:
			ip, _ := netip.AddrFromSlice(b.AAAA)
			out = append(out, "AAAA:"+netip.AddrFrom16(ip.As16()).StringExpanded())
		default:
			out = append(out, "O:"+strconv.Itoa(int(rr.Header().Rrtype)))
		}
	}
	return out
}

func c07Answer(name string, rrs []string) []dnsmessage.RR {
	var out []dnsmessage.RR
	for _, a := range rrs {
		kind, val, _ := strings.Cut(a, ":")
		switch kind {
		case "A":
			out = append(out, &dnsmessage.A{Hdr: dnsmessage.RR_Header{Name: name, Rrtype: dnsmessage.TypeA, Class: dnsmessage.ClassINET, Ttl: 300},
				A: net.IP(netip.MustParseAddr(val).AsSlice())})
		case "AAAA":
			b := netip.MustParseAddr(val).As16()
			out = append(out, &dnsmessage.AAAA{Hdr: dnsmessage.RR_Header{Name: name, Rrtype: dnsmessage.TypeAAAA, Class: dnsmessage.ClassINET, Ttl: 300},
				AAAA: net.IP(b[:])})
		default:
			out = append(out, &dnsmessage.CNAME{Hdr: dnsmessage.RR_Header{Name: name, Rrtype: dnsmessage.TypeCNAME, Class: dnsmessage.ClassINET, Ttl: 300},
				Target: "alias.example."})
		}
	}
	return out
}

type c07Forwarder struct {
	code int
	st   *c07State
}

type c07State struct {
	mu     sync.Mutex
	script map[string][][]string
	asked  []int // built-for code of the forwarder used, per query (also indexes the script)
	chosen []int // code of the upstream handed to BestDialerChooser, per query
}

func (f *c07Forwarder) Close() error { return nil }
func (f *c07Forwarder) ForwardDNS(ctx context.Context, data []byte) (*dnsmessage.Msg, error) {
	var q dnsmessage.Msg
	if err := q.Unpack(data); err != nil {
		return nil, fmt.Errorf("c07: scripted upstream cannot unpack the query: %w", err)
	}
	f.st.mu.Lock()
	k := len(f.st.asked)
	f.st.asked = append(f.st.asked, f.code)
	var reply []string
	fail := true
	if l, ok := f.st.script[strconv.Itoa(f.code)]; ok && k < len(l) {
		reply = l[k]
		fail = len(reply) == 1 && reply[0] == "FAIL"
	}
	f.st.mu.Unlock()
	if fail {
		return nil, fmt.Errorf("c07: scripted upstream failure")
	}
	m := &dnsmessage.Msg{}
	m.SetReply(&q)
	m.RecursionAvailable = true
	if len(q.Question) > 0 {
		m.Answer = c07Answer(q.Question[0].Name, reply)
	}
	return m, nil
}

type c07Writer struct{ msgs []*dnsmessage.Msg }

func (w *c07Writer) LocalAddr() net.Addr  { return nil }
func (w *c07Writer) RemoteAddr() net.Addr { return nil }
func (w *c07Writer) WriteMsg(m *dnsmessage.Msg) error {
	w.msgs = append(w.msgs, m.Copy())
	return nil
}
func (w *c07Writer) Write(b []byte) (int, error) { return len(b), nil }
func (w *c07Writer) Close() error                { return nil }
func (w *c07Writer) TsigStatus() error           { return nil }
func (w *c07Writer) TsigTimersOnly(bool)         {}
func (w *c07Writer) Hijack()                     {}

func c07CtlHits(patterns []string, name string) []string {
	norm := strings.ToLower(strings.TrimSuffix(name, "."))
	hits := []string{}
	for _, p := range patterns {
		re, err := regexp.Compile(p)
		if err != nil {
			continue
		}
		if name != "" && re.MatchString(norm) { // no hits for an absent name; the root name "." is matched as ""
			hits = append(hits, p)
		}
	}
	return hits
}

func c07RunCtl(cs *c07CtlCase) (res c07CtlResult) {
	defer func() {
		if r := recover(); r != nil {
			res.Panic = fmt.Sprint(r)
		}
	}()
	log := logrus.New()
	log.SetOutput(io.Discard)
	log.SetLevel(logrus.PanicLevel)
	routing, err := c07NewRouting(log, cs, &cs.Req, &cs.Resp)
	if err != nil {
		res.NewErr = err.Error()
		return res
	}
	st := &c07State{}
	realDst := netip.MustParseAddrPort("192.0.2.1:53")
	// scope text of the cache keys -> source code
	res.Scopes = map[string]string{"asis@" + realDst.String(): "253"}
	codeOf := map[string]int{}
	for i := range cs.Ups {
		u, perr := url.Parse(c07Url(cs, i))
		if perr != nil {
			res.Panic = "HARNESS: bad upstream url: " + perr.Error()
			return res
		}
		scheme, host, port, path, perr := componentdns.ParseRawUpstream(u)
		if perr != nil {
			res.Panic = "HARNESS: bad upstream url: " + perr.Error()
			return res
		}
		s := string(scheme) + "://" + net.JoinHostPort(host, strconv.Itoa(int(port))) + path
		if _, dup := codeOf[s]; dup {
			res.Panic = "HARNESS: two upstreams with the same identity " + s
			return res
		}
		codeOf[s] = i
		res.Scopes["upstream@"+s] = strconv.Itoa(i)
		ip := host
		if r, ok := cs.Resolve[host]; ok {
			ip = r
		}
		res.Ids = append(res.Ids, c07Ident{Code: i, Scheme: string(scheme), Host: host, Port: port, Path: path, L4: c07L4(scheme), Ip: ip})
	}
	codeOf["udp://"+realDst.String()] = 253
	res.Ids = append(res.Ids, c07Ident{Code: 253, Scheme: "udp", Host: realDst.Addr().String(), Port: realDst.Port(), Path: "", L4: 2, Ip: realDst.Addr().String()})

	original := dnsForwarderFactory
	defer func() { dnsForwarderFactory = original }()
	dnsForwarderFactory = func(upstream *componentdns.Upstream, dialArg dialArgument, _ *logrus.Logger) (DnsForwarder, error) {
		code, ok := codeOf[upstream.String()]
		if !ok {
			return nil, fmt.Errorf("c07: query sent to an unknown upstream %v", upstream.String())
		}
		return &c07Forwarder{code: code, st: st}, nil
	}
	opt := &DnsControllerOption{
		Log:                 log,
		LifecycleContext:    context.Background(),
		CacheAccessCallback: func(*DnsCache) error { return nil },
		CacheRemoveCallback: func(*DnsCache) error { return nil },
		NewCache: func(fqdn string, answers, ns, extra []dnsmessage.RR, deadline, originalDeadline time.Time) (*DnsCache, error) {
			return &DnsCache{Answer: answers, NS: ns, Extra: extra, Deadline: deadline, OriginalDeadline: originalDeadline}, nil
		},
		// same shape as the production chooser: the target is the upstream's resolved ip:port, the transport follows the scheme
		BestDialerChooser: func(ctx context.Context, req *udpRequest, upstream *componentdns.Upstream) (*dialArgument, error) {
			t := realDst
			if upstream != nil && upstream.Ip46 != nil && upstream.Ip4.IsValid() {
				t = netip.AddrPortFrom(upstream.Ip4, upstream.Port)
			}
			code, ok := codeOf[upstream.String()]
			if !ok {
				code = -1
			}
			st.mu.Lock()
			st.chosen = append(st.chosen, code)
			st.mu.Unlock()
			l4 := consts.L4ProtoStr_TCP
			if c07L4(upstream.Scheme) == 2 {
				l4 = consts.L4ProtoStr_UDP
			}
			return &dialArgument{l4proto: l4, ipversion: consts.IpVersionStr_4, bestTarget: t}, nil
		},
		TimeoutExceedCallback: func(*dialArgument, error) {},
	}
	ctrl, err := NewDnsController(routing, opt)
	if err != nil {
		res.NewErr = "NewDnsController: " + err.Error()
		return res
	}
	defer ctrl.Close()
	req := &udpRequest{realSrc: netip.MustParseAddrPort("192.0.2.10:41000"), realDst: realDst, routingResult: &bpfRoutingResult{}}
	for si, step := range cs.Steps {
		if step.Kind == "reload" {
			nr, err := c07NewRouting(log, cs, step.Req, step.Resp)
			if err != nil {
				res.Panic = fmt.Sprintf("HARNESS: reload routing of step %d rejected: %v", si, err)
				return res
			}
			ctrl.UpdateRuntime(opt, nr)
			res.Steps = append(res.Steps, c07StepRes{Kind: "reload"})
			continue
		}
		st.mu.Lock()
		st.script = step.Script
		st.asked = nil
		st.chosen = nil
		st.mu.Unlock()
		q := &dnsmessage.Msg{}
		q.Id = uint16(1000 + si)
		q.RecursionDesired = true
		q.Question = []dnsmessage.Question{{Name: step.Name, Qtype: step.QType, Qclass: dnsmessage.ClassINET}}
		w := &c07Writer{}
		done := make(chan error, 1)
		go func() {
			defer func() {
				if r := recover(); r != nil {
					done <- fmt.Errorf("PANIC: %v", r)
				}
			}()
			done <- ctrl.HandleWithResponseWriter_(context.Background(), q, req, w)
		}()
		var herr error
		select {
		case herr = <-done:
		case <-time.After(20 * time.Second):
			herr = fmt.Errorf("c07: handler did not return")
		}
		sr := c07StepRes{Kind: "ask", Hits: c07CtlHits(cs.Regex, step.Name)}
		switch {
		case herr != nil:
			sr.Out, sr.Err = "error", herr.Error()
		case len(w.msgs) > 0:
			sr.Out = "reply"
			sr.Ans = c07RRs(w.msgs[len(w.msgs)-1].Answer)
			if len(w.msgs) > 1 {
				sr.Err = fmt.Sprintf("%d replies written", len(w.msgs))
			}
		default:
			sr.Out = "none"
		}
		st.mu.Lock()
		sr.Built = append([]int{}, st.asked...)
		sr.Asked = append([]int{}, st.chosen...)
		st.mu.Unlock()
		ctrl.dnsCache.Range(func(k, v any) bool {
			sr.Cache = append(sr.Cache, c07CacheEntry{Key: k.(string), Ans: c07RRs(v.(*DnsCache).Answer)})
			return true
		})
		sort.Slice(sr.Cache, func(i, j int) bool { return sr.Cache[i].Key < sr.Cache[j].Key })
		res.Steps = append(res.Steps, sr)
	}
	return res
}

func TestVerifC07Ctl(t *testing.T) {
	verifEachLine(t, func(line []byte) any {
		var cs c07CtlCase
		if err := json.Unmarshal(line, &cs); err != nil {
			return c07CtlResult{Panic: "bad case json: " + err.Error()}
		}
		return c07RunCtl(&cs)
	})
}
