//go:build verif

package control

// C17 — config.New contract: the decode oracle (common.FuzzyDecode on the real field types) and the build
// answer with its error message.

import (
	"encoding/json"
	"fmt"
	"net/netip"
	"testing"
	"time"

	"github.com/daeuniverse/dae/common"
)

type c17DecodeReq struct {
	Op    string `json:"op"`
	Ty    string `json:"ty"`
	Value string `json:"value"` // base64
	Text  string `json:"text"`  // base64 (op build2)
}

func c17Decode(ty string, v string) (ok bool, known bool) {
	switch ty {
	case "bool":
		var x bool
		return common.FuzzyDecode(&x, v), true
	case "uint8":
		var x uint8
		return common.FuzzyDecode(&x, v), true
	case "uint16":
		var x uint16
		return common.FuzzyDecode(&x, v), true
	case "uint32":
		var x uint32
		return common.FuzzyDecode(&x, v), true
	case "int":
		var x int
		return common.FuzzyDecode(&x, v), true
	case "time.Duration":
		var x time.Duration
		return common.FuzzyDecode(&x, v), true
	case "string":
		var x string
		return common.FuzzyDecode(&x, v), true
	case "netip.AddrPort":
		_, err := netip.ParseAddrPort(v)
		return err == nil, true
	case "httpmethod":
		return common.IsValidHttpMethod(v), true
	}
	return false, false
}

func TestVerifC17Build(t *testing.T) {
	verifEachLine(t, func(line []byte) (res any) {
		defer func() {
			if r := recover(); r != nil {
				res = map[string]any{"panic": fmt.Sprint(r)}
			}
		}()
		var req c17DecodeReq
		if err := json.Unmarshal(line, &req); err != nil {
			return map[string]any{"panic": "harness: bad request: " + err.Error()}
		}
		switch req.Op {
		case "decode":
			ok, known := c17Decode(req.Ty, c17Text(req.Value))
			return map[string]any{"ok": ok, "known": known}
		case "build2":
			// parse result (sections) and build answer of the same text
			text := c17Text(req.Text)
			p := c17Parse(text)
			b, _ := c17Build(text)
			return map[string]any{"parse": p, "build": b}
		}
		return map[string]any{"panic": "harness: unknown op " + req.Op}
	})
}
