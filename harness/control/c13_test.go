//go:build verif

package control

// C13 harness, part 1: deterministic scheduler over the verif yield points of udp_task_pool.go.
//
// Every instrumented goroutine (producers calling the real EmitTask, the real convoy goroutines, and the
// tasks the convoys execute) parks at each yield point and proceeds only when a command releases it.
// After each command the harness waits until the system has settled: every producer that was released
// is parked again or has returned, and every live convoy is parked, has exited, or is blocked in its
// select with nothing it could do (idle timer is 200us, so an idle queue's convoy passes its idle check
// and parks at convoy.after_idle_check "at once").  Goroutine states are read from runtime.Stack(all).
// The result of each command (resolved thread, who is parked where, events) is reported; the Coq model
// replays the same commands as macro steps and must agree; the spec is evaluated on the event log.

import (
	"context"
	"encoding/binary"
	"encoding/json"
	stderrors "errors"
	"io"
	"net"
	"net/netip"
	"os"
	"runtime"
	"sort"
	"strconv"
	"strings"
	"sync"
	"sync/atomic"
	"testing"
	"time"

	"github.com/daeuniverse/dae/common/consts"
	ob "github.com/daeuniverse/dae/component/outbound"
	componentdialer "github.com/daeuniverse/dae/component/outbound/dialer"
	"github.com/daeuniverse/outbound/netproxy"
	"github.com/sirupsen/logrus"
	"golang.org/x/net/ipv6"
)

type c13Cmd struct {
	Kind int `json:"kind"` // 0 convoy, 1 producer, 2 task, -1 any, -2/-3/-4 prefer convoy/producer/task
	ID   int `json:"id"`
}

type c13Case struct {
	Cap  int      `json:"cap"` // channel capacity (0 = NewUdpTaskPool, i.e. UdpTaskQueueLength)
	Keys []int    `json:"keys"`
	Cmds []c13Cmd `json:"cmds"`
	// PopYield: also park convoys at convoy.pop_between (between the channel poll and the overflow pop)
	PopYield bool `json:"popyield"`
}

type c13CmdRes struct {
	Cmd    c13Cmd  `json:"cmd"`
	Get    *int    `json:"get"`    // a queue was created; its channel was last used by queue Get (nil: never seen)
	Thread []int   `json:"thread"` // resolved (kind,id) or empty when the command named nothing enabled
	Parked [][]int `json:"parked"` // (kind,id,point) sorted
	Events [][]int `json:"events"` // [0,k,t] accept  [1,qk,q,tk,t] start  [2,q,t] end
}

type c13Res struct {
	Cmds          []c13CmdRes `json:"cmds"`
	Stuck         string      `json:"stuck,omitempty"`
	StuckDump     string      `json:"stuck_dump,omitempty"`
	StuckRunnable bool        `json:"stuck_runnable,omitempty"`
	Panic         string      `json:"panic,omitempty"`
	CapUsed       int         `json:"cap_used"`
}

type c13Entry struct {
	kind, id, point int
	rel             chan struct{}
}

type c13Queue struct {
	q    *UdpTaskQueue
	key  int
	gid  int64
	dead bool
}

type c13Raw struct {
	class int // 0 end, 1 accept, 2 start
	gid   int64
	a, b  int
}

type c13Sched struct {
	mu       sync.Mutex
	p        *UdpTaskPool
	keys     []int
	parked   map[int64]*c13Entry
	gidProd  map[int64]int
	prodGid  []int64
	prodDone []bool
	started  []bool
	gidConv  map[int64]int
	queues   []*c13Queue
	raw      []c13Raw
	newGet   *int
	newQueue bool
	abort    bool
	popYield bool
	foreign  map[int64]bool
	wake     chan struct{}
}

var c13S *c13Sched

var c13StuckCount int

func c13Goid() int64 {
	var buf [64]byte
	n := runtime.Stack(buf[:], false)
	s := string(buf[:n])
	s = strings.TrimPrefix(s, "goroutine ")
	if i := strings.IndexByte(s, ' '); i > 0 {
		v, _ := strconv.ParseInt(s[:i], 10, 64)
		return v
	}
	return -1
}

func c13Statuses() map[int64]string {
	buf := make([]byte, 1<<20)
	n := runtime.Stack(buf, true)
	res := map[int64]string{}
	for _, blk := range strings.Split(string(buf[:n]), "\n\n") {
		if !strings.HasPrefix(blk, "goroutine ") {
			continue
		}
		rest := blk[len("goroutine "):]
		i := strings.IndexByte(rest, ' ')
		if i < 0 {
			continue
		}
		id, err := strconv.ParseInt(rest[:i], 10, 64)
		if err != nil {
			continue
		}
		st := rest[i+1:]
		if j := strings.IndexAny(st, ",]"); j > 0 {
			st = st[1:j]
		}
		res[id] = st
	}
	return res
}

// settle deadlines are multiplied by VERIF_SETTLE_MULT (the driver re-runs schedules that timed out on a
// loaded machine with 4x and 16x before it believes a deadlock)
func c13SettleDeadline() time.Time {
	mult := 1
	if v, err := strconv.Atoi(os.Getenv("VERIF_SETTLE_MULT")); err == nil && v > 0 {
		mult = v
	}
	return time.Now().Add(time.Duration(mult) * 4 * time.Second)
}

// goroutines that exist before a case starts (left-overs of an aborted case, runtime helpers) are never
// treated as instrumented threads of the case
func c13ExistingGoroutines() map[int64]bool {
	res := map[int64]bool{}
	for g := range c13Statuses() {
		res[g] = true
	}
	return res
}

// dump of the given goroutines and whether any of them can run (runnable/running): a settle timeout with
// every instrumented goroutine parked or blocked is a deadlock, one with a runnable goroutine is starvation
func c13StuckDump(gids map[int64]bool) (string, bool) {
	buf := make([]byte, 1<<20)
	n := runtime.Stack(buf, true)
	var sb strings.Builder
	runnable := false
	for _, blk := range strings.Split(string(buf[:n]), "\n\n") {
		if !strings.HasPrefix(blk, "goroutine ") {
			continue
		}
		rest := blk[len("goroutine "):]
		i := strings.IndexByte(rest, ' ')
		if i < 0 {
			continue
		}
		id, err := strconv.ParseInt(rest[:i], 10, 64)
		if err != nil || !gids[id] {
			continue
		}
		st := rest[i+1:]
		if strings.HasPrefix(st, "[runnable") || strings.HasPrefix(st, "[running") {
			runnable = true
		}
		lines := strings.Split(blk, "\n")
		if len(lines) > 14 {
			lines = lines[:14]
		}
		sb.WriteString(strings.Join(lines, "\n"))
		sb.WriteString("\n\n")
		if sb.Len() > 12000 {
			break
		}
	}
	return sb.String(), runnable
}

// wait for a wake-up signal (an instrumented goroutine parked or finished) or a short, growing pause
func c13Pause(wake chan struct{}, round int) {
	runtime.Gosched()
	d := 20 * time.Microsecond << uint(min(round, 7))
	select {
	case <-wake:
	case <-time.After(d):
	}
}

func c13Signal(wake chan struct{}) {
	select {
	case wake <- struct{}{}:
	default:
	}
}

func (s *c13Sched) ukey(k int) UdpFlowKey {
	return NewUdpFlowKey(netip.AddrPortFrom(netip.AddrFrom4([4]byte{10, 0, byte(k >> 8), byte(k)}), 4000),
		netip.AddrPortFrom(netip.AddrFrom4([4]byte{198, 51, 100, 1}), 443))
}

// park the calling goroutine
func (s *c13Sched) arrive(kind, id, point int) {
	gid := c13Goid()
	s.mu.Lock()
	if s.abort {
		s.mu.Unlock()
		return
	}
	e := &c13Entry{kind: kind, id: id, point: point, rel: make(chan struct{})}
	if kind != 1 {
		if _, ok := s.gidConv[gid]; !ok {
			s.gidConv[gid] = -1 // unknown convoy, bound when its queue is registered
		}
	}
	if kind == 1 && point == 2 {
		// emit.after_enqueue: the task is in the queue -> accepted; learn the queue if it is new
		s.raw = append(s.raw, c13Raw{class: 1, a: s.keys[id], b: id})
		if v, ok := s.p.queues.Load(s.ukey(s.keys[id])); ok {
			q := v.(*UdpTaskQueue)
			known := false
			for _, x := range s.queues {
				if x.q == q {
					known = true
				}
			}
			if !known {
				s.newQueue = true
				s.newGet = nil
				for j := len(s.queues) - 1; j >= 0; j-- {
					if s.queues[j].q.ch == q.ch {
						jj := j
						s.newGet = &jj
						break
					}
				}
				s.queues = append(s.queues, &c13Queue{q: q, key: s.keys[id]})
			}
		}
	}
	if kind == 2 {
		s.raw = append(s.raw, c13Raw{class: 2, gid: gid, a: id})
	}
	s.parked[gid] = e
	s.mu.Unlock()
	c13Signal(s.wake)
	<-e.rel
}

func (s *c13Sched) hook(point string) {
	gid := c13Goid()
	s.mu.Lock()
	i, isProd := s.gidProd[gid]
	foreign := s.foreign[gid]
	s.mu.Unlock()
	if foreign {
		return
	}
	switch point {
	case "acquire.after_load":
		if isProd {
			s.arrive(1, i, 1)
		}
	case "emit.after_enqueue":
		if isProd {
			s.arrive(1, i, 2)
		}
	case "convoy.after_idle_check":
		s.arrive(0, 0, 3)
	case "convoy.after_claim":
		s.arrive(0, 0, 4)
	case "convoy.before_recycle":
		s.arrive(0, 0, 5)
	case "convoy.pop_between":
		if s.popYield {
			s.arrive(0, 0, 7)
		}
	}
}

func (s *c13Sched) task(t int) UdpTask {
	return func() {
		gid := c13Goid()
		s.mu.Lock()
		foreign := s.foreign[gid]
		s.mu.Unlock()
		if foreign {
			return
		}
		s.arrive(2, t, 6)
		s.mu.Lock()
		s.raw = append(s.raw, c13Raw{class: 0, gid: gid, a: t})
		s.mu.Unlock()
		c13Signal(s.wake)
	}
}

func (s *c13Sched) startProducer(i int) {
	s.started[i] = true
	go func() {
		gid := c13Goid()
		s.mu.Lock()
		s.gidProd[gid] = i
		s.prodGid[i] = gid
		s.mu.Unlock()
		s.p.EmitTask(s.ukey(s.keys[i]), s.task(i))
		s.mu.Lock()
		s.prodDone[i] = true
		s.mu.Unlock()
		c13Signal(s.wake)
	}()
}

// bind unknown convoy goroutines to queues that have no goroutine yet (at most one of each per command)
func (s *c13Sched) bind() {
	var unk []int64
	for g, q := range s.gidConv {
		if q < 0 {
			unk = append(unk, g)
		}
	}
	var free []int
	for j, q := range s.queues {
		if q.gid == 0 && !q.dead {
			free = append(free, j)
		}
	}
	if len(unk) == 1 && len(free) == 1 {
		s.gidConv[unk[0]] = free[0]
		s.queues[free[0]].gid = unk[0]
	}
}

func (s *c13Sched) settle(released *c13Entry, relGid int64, prod int) string {
	deadline := c13SettleDeadline()
	for round := 0; ; round++ {
		c13Pause(s.wake, round)
		s.mu.Lock()
		// the goroutine snapshot is taken while the scheduler's flags cannot change: a snapshot older than the
		// flags could show a waiter still blocked although the flag of the thread that woke it already says done
		st := c13Statuses()
		s.bind()
		stable := true
		if prod >= 0 {
			g := s.prodGid[prod]
			if g == 0 || !(s.prodDone[prod] || s.parked[g] != nil) {
				stable = false
			}
			if s.prodDone[prod] {
				if _, alive := st[g]; alive {
					stable = false
				}
			}
		}
		for g, q := range s.gidConv {
			if q < 0 {
				stable = false
				_ = g
			}
		}
		for _, q := range s.queues {
			if q.dead {
				continue
			}
			if q.gid == 0 {
				stable = false
				continue
			}
			if s.parked[q.gid] != nil {
				continue
			}
			status, alive := st[q.gid]
			if !alive {
				q.dead = true
				continue
			}
			will := len(q.q.ch) > 0 || q.q.overflowLen.Load() > 0 || q.q.refs.Load() == 0
			if status != "select" || will {
				stable = false
			}
		}
		s.mu.Unlock()
		if stable {
			return ""
		}
		if time.Now().After(deadline) {
			return "settle timeout"
		}
	}
}

func (s *c13Sched) parkedList() [][]int {
	res := [][]int{}
	for g, e := range s.parked {
		switch e.kind {
		case 0:
			res = append(res, []int{0, s.gidConv[g], e.point})
		default:
			res = append(res, []int{e.kind, e.id, e.point})
		}
	}
	sort.Slice(res, func(a, b int) bool {
		if res[a][0] != res[b][0] {
			return res[a][0] < res[b][0]
		}
		return res[a][1] < res[b][1]
	})
	return res
}

func (s *c13Sched) enabled() [][]int {
	var conv, prod, task [][]int
	for _, e := range s.parkedList() {
		switch e[0] {
		case 0:
			conv = append(conv, e[:2])
		case 1:
			prod = append(prod, e[:2])
		default:
			task = append(task, e[:2])
		}
	}
	for i := range s.started {
		if !s.started[i] {
			prod = append(prod, []int{1, i})
			break
		}
	}
	sort.Slice(prod, func(a, b int) bool { return prod[a][1] < prod[b][1] })
	return append(append(conv, prod...), task...)
}

func (s *c13Sched) findParked(kind, id int) (int64, *c13Entry) {
	for g, e := range s.parked {
		if e.kind == 0 && kind == 0 && s.gidConv[g] == id {
			return g, e
		}
		if e.kind == kind && kind != 0 && e.id == id {
			return g, e
		}
	}
	return 0, nil
}

func (s *c13Sched) exec(c c13Cmd) (c13CmdRes, string) {
	res := c13CmdRes{Cmd: c, Thread: []int{}, Events: [][]int{}}
	s.mu.Lock()
	en := s.enabled()
	var th []int
	if c.Kind < 0 {
		// -1: any; -2-k: prefer threads of kind k
		sel := en
		if c.Kind <= -2 {
			var pref [][]int
			for _, e := range en {
				if e[0] == -2-c.Kind {
					pref = append(pref, e)
				}
			}
			if len(pref) > 0 {
				sel = pref
			}
		}
		if len(sel) > 0 {
			th = sel[c.ID%len(sel)]
		}
	} else {
		for _, e := range en {
			if e[0] == c.Kind && e[1] == c.ID {
				th = e
			}
		}
	}
	if th == nil {
		res.Parked = s.parkedList()
		s.mu.Unlock()
		return res, ""
	}
	res.Thread = th
	s.raw = nil
	s.newQueue = false
	s.newGet = nil
	prod := -1
	var relGid int64
	var ent *c13Entry
	if th[0] == 1 {
		prod = th[1]
	}
	if th[0] == 1 && !s.started[th[1]] {
		s.startProducer(th[1])
	} else {
		relGid, ent = s.findParked(th[0], th[1])
		delete(s.parked, relGid)
	}
	s.mu.Unlock()
	if ent != nil {
		close(ent.rel)
	}
	stuck := s.settle(ent, relGid, prod)
	s.mu.Lock()
	defer s.mu.Unlock()
	res.Parked = s.parkedList()
	if s.newQueue {
		res.Get = s.newGet
		if res.Get == nil {
			m := -1
			res.Get = &m
		}
	}
	raws := append([]c13Raw(nil), s.raw...)
	sort.SliceStable(raws, func(a, b int) bool { return raws[a].class < raws[b].class })
	for _, r := range raws {
		switch r.class {
		case 0:
			res.Events = append(res.Events, []int{2, s.gidConv[r.gid], r.a})
		case 1:
			res.Events = append(res.Events, []int{0, r.a, r.b})
		case 2:
			qi := s.gidConv[r.gid]
			qk := -1
			if qi >= 0 && qi < len(s.queues) {
				qk = s.queues[qi].key
			}
			res.Events = append(res.Events, []int{1, qk, qi, s.keys[r.a], r.a})
		}
	}
	return res, stuck
}

func c13RunCase(c c13Case) (res c13Res) {
	defer func() {
		if r := recover(); r != nil {
			res.Panic = "panic"
		}
	}()
	var p *UdpTaskPool
	if c.Cap > 0 {
		capN := c.Cap
		p = &UdpTaskPool{queueChPool: sync.Pool{New: func() any { return make(chan UdpTask, capN) }}}
		res.CapUsed = capN
	} else {
		p = NewUdpTaskPool()
		res.CapUsed = UdpTaskQueueLength
	}
	s := &c13Sched{p: p, keys: c.Keys, parked: map[int64]*c13Entry{}, gidProd: map[int64]int{},
		prodGid: make([]int64, len(c.Keys)), prodDone: make([]bool, len(c.Keys)), started: make([]bool, len(c.Keys)),
		gidConv: map[int64]int{}, popYield: c.PopYield, foreign: c13ExistingGoroutines(), wake: make(chan struct{}, 1)}
	c13S = s
	VerifYield = s.hook
	defer func() {
		// let everything that is still parked run to completion without further parking
		s.mu.Lock()
		s.abort = true
		for g, e := range s.parked {
			close(e.rel)
			delete(s.parked, g)
		}
		s.mu.Unlock()
		p.Close()
		time.Sleep(200 * time.Microsecond)
		VerifYield = nil
	}()
	run := func(cmd c13Cmd) bool {
		r, stuck := s.exec(cmd)
		res.Cmds = append(res.Cmds, r)
		if stuck != "" {
			res.Stuck = stuck
			s.mu.Lock()
			gids := map[int64]bool{}
			for g, i := range s.gidProd {
				if !s.prodDone[i] {
					gids[g] = true
				}
			}
			for g := range s.gidConv {
				gids[g] = true
			}
			s.mu.Unlock()
			res.StuckDump, res.StuckRunnable = c13StuckDump(gids)
			return false
		}
		return true
	}
	for _, cmd := range c.Cmds {
		if !run(cmd) {
			return res
		}
	}
	// drain: release the first enabled thread until nothing is enabled
	for n := 0; n < 40*len(c.Keys)+200; n++ {
		s.mu.Lock()
		en := s.enabled()
		s.mu.Unlock()
		if len(en) == 0 {
			break
		}
		if !run(c13Cmd{Kind: -1, ID: 0}) {
			return res
		}
	}
	return res
}

func TestVerifC13(t *testing.T) {
	old := UdpTaskPoolAgingTime
	UdpTaskPoolAgingTime = 200 * time.Microsecond
	prev := runtime.GOMAXPROCS(1)
	defer func() { UdpTaskPoolAgingTime = old; runtime.GOMAXPROCS(prev) }()
	verifEachLine(t, func(line []byte) any {
		var c c13Case
		if err := json.Unmarshal(line, &c); err != nil {
			return map[string]string{"panic": "bad case: " + err.Error()}
		}
		if c13StuckCount >= 5 {
			// circuit breaker: after five settle timeouts in one process the remaining schedules are handed
			// back unevaluated; the driver re-runs them unless the timeouts are confirmed deadlocks
			return map[string]any{"skipped": true}
		}
		r := c13RunCase(c)
		if r.Stuck != "" {
			c13StuckCount++
		}
		return r
	})
}

// ---------------------------------------------------------------------------------------------
// part 2: udpConnStateTracker through the real controlPlaneCore entry points
// ---------------------------------------------------------------------------------------------

type c13TOp struct {
	Kind int   `json:"kind"` // 0 retain, 1 release (begin+finalize), 2 forget, 3 transfer g -> g2
	G    int   `json:"g"`
	G2   int   `json:"g2"`
	Keys []int `json:"keys"`
}

type c13TCase struct {
	Gens int      `json:"gens"`
	Univ []int    `json:"univ"`
	Ops  []c13TOp `json:"ops"`
}

type c13TStep struct {
	Deletes []int   `json:"deletes"`
	Dump    [][]int `json:"dump"` // (g, k, refs, deleting) for every existing entry, sorted
}

func c13TupleKey(k int) bpfTuplesKey {
	var t bpfTuplesKey
	t.Sip.U6Addr8[15] = byte(k)
	t.Sip.U6Addr8[14] = byte(k >> 8)
	t.Dip.U6Addr8[15] = 1
	t.Sport = uint16(1000 + k)
	t.Dport = 443
	t.L4proto = 17
	return t
}

func c13RunTCase(c c13TCase) (res []c13TStep) {
	cores := make([]*controlPlaneCore, c.Gens)
	for i := range cores {
		cores[i] = &controlPlaneCore{}
	}
	rev := map[bpfTuplesKey]int{}
	for _, k := range c.Univ {
		rev[c13TupleKey(k)] = k
	}
	for _, op := range c.Ops {
		keys := make([]bpfTuplesKey, len(op.Keys))
		for i, k := range op.Keys {
			keys[i] = c13TupleKey(k)
		}
		st := c13TStep{Deletes: []int{}, Dump: [][]int{}}
		core := cores[op.G]
		switch op.Kind {
		case 0:
			core.RetainUdpConnStateTuples(keys)
		case 1:
			tr := core.getUdpConnStateTracker()
			rel := tr.BeginRelease(keys)
			for _, r := range rel {
				st.Deletes = append(st.Deletes, rev[r.key])
			}
			tr.FinalizeRelease(rel)
			// the production wrapper must agree on being callable (bpf is nil here: it deletes nothing)
		case 2:
			core.getUdpConnStateTracker().Forget(keys)
		case 3:
			cores[op.G2].TransferRetainedUdpConnStateTuplesFrom(core, keys)
		}
		for g, cr := range cores {
			tr := cr.getUdpConnStateTracker()
			tr.mu.Lock()
			for k, e := range tr.entries {
				d := 0
				if e.deleting {
					d = 1
				}
				st.Dump = append(st.Dump, []int{g, rev[k], e.refs, d})
			}
			tr.mu.Unlock()
		}
		sort.Slice(st.Dump, func(a, b int) bool {
			if st.Dump[a][0] != st.Dump[b][0] {
				return st.Dump[a][0] < st.Dump[b][0]
			}
			return st.Dump[a][1] < st.Dump[b][1]
		})
		res = append(res, st)
	}
	return res
}

func TestVerifC13Tracker(t *testing.T) {
	verifEachLine(t, func(line []byte) any {
		var c c13TCase
		if err := json.Unmarshal(line, &c); err != nil {
			return map[string]string{"panic": "bad case: " + err.Error()}
		}
		return map[string]any{"steps": c13RunTCase(c)}
	})
}

// ---------------------------------------------------------------------------------------------
// part 3: UdpEndpointPool driven sequentially (plus concurrent first-use bursts) with fake dialers
// ---------------------------------------------------------------------------------------------

type c13Conn struct {
	mu         sync.Mutex
	closed     bool
	closeCalls int
	writeErr   bool
	closeCh    chan struct{}
}

func (c *c13Conn) Read(_ []byte) (int, error)  { return 0, io.EOF }
func (c *c13Conn) Write(b []byte) (int, error) { return len(b), nil }
func (c *c13Conn) ReadFrom(p []byte) (int, netip.AddrPort, error) {
	<-c.closeCh
	return 0, netip.AddrPort{}, io.EOF
}
func (c *c13Conn) WriteTo(b []byte, _ string) (int, error) {
	c.mu.Lock()
	defer c.mu.Unlock()
	if c.closed {
		return 0, net.ErrClosed
	}
	if c.writeErr {
		return 0, io.ErrClosedPipe
	}
	return len(b), nil
}
func (c *c13Conn) Close() error {
	c.mu.Lock()
	defer c.mu.Unlock()
	c.closeCalls++
	if !c.closed {
		c.closed = true
		close(c.closeCh)
	}
	return nil
}
func (c *c13Conn) SetDeadline(time.Time) error      { return nil }
func (c *c13Conn) SetReadDeadline(time.Time) error  { return nil }
func (c *c13Conn) SetWriteDeadline(time.Time) error { return nil }

type c13Dialer struct {
	mu    sync.Mutex
	fail  bool
	gate  chan struct{}
	dials int
	conns []*c13Conn
}

func (d *c13Dialer) DialContext(ctx context.Context, _ string, _ string) (netproxy.Conn, error) {
	d.mu.Lock()
	d.dials++
	fail := d.fail
	gate := d.gate
	d.mu.Unlock()
	if gate != nil {
		<-gate
	}
	if fail {
		return nil, io.ErrUnexpectedEOF
	}
	c := &c13Conn{closeCh: make(chan struct{})}
	d.mu.Lock()
	d.conns = append(d.conns, c)
	d.mu.Unlock()
	return c, nil
}

type c13EOp struct {
	Kind string `json:"kind"` // goc write track inval reset burst remove
	K    int    `json:"k"`
	D    int    `json:"d"`
	G    int    `json:"g"`
	Out  int    `json:"out"` // goc: 0 dial ok, 1 dial fails (cacheable), 2 no alive dialer; write: 0 ok, 1 error
	E    int    `json:"e"`
	T    int    `json:"t"`
	N    int    `json:"n"`
}

type c13ECase struct {
	Keys    int      `json:"keys"`
	Dialers int      `json:"dialers"`
	Gens    int      `json:"gens"`
	Ops     []c13EOp `json:"ops"`
}

type c13EStep struct {
	Ret      int     `json:"ret"` // endpoint id, -1 none
	IsNew    bool    `json:"isnew"`
	Err      int     `json:"err"` // 0 nil, 1 ErrEndpointFailed, 2 other error
	Distinct int     `json:"distinct"`
	Dials    int     `json:"dials"`
	Eps      [][]int `json:"eps"`    // per endpoint id: dead, conn close calls
	Pool     []int   `json:"pool"`   // per key: endpoint id, -1 none, -2 failure marker, -3 unknown endpoint
	Tuples   [][]int `json:"tuples"` // (gen, tuple, refs) sorted
	Drain    []int   `json:"drain"`  // per generation: drain tracker count
}

func c13EKey(k int) UdpEndpointKey {
	return UdpEndpointKey{Src: netip.AddrPortFrom(netip.AddrFrom4([4]byte{192, 0, 2, byte(k + 1)}), 4000)}
}

func c13RunECase(c c13ECase) (res []c13EStep) {
	p := &UdpEndpointPool{}
	for i := range p.shards {
		p.shards[i].pool = make(map[UdpEndpointKey]*UdpEndpoint)
	}
	logger := logrus.New()
	logger.SetOutput(io.Discard)
	under := make([]*c13Dialer, c.Dialers)
	dialers := make([]*componentdialer.Dialer, c.Dialers)
	for i := range dialers {
		under[i] = &c13Dialer{}
		dialers[i] = componentdialer.NewDialer(under[i], &componentdialer.GlobalOption{Log: logger, CheckInterval: time.Second},
			componentdialer.InstanceOption{DisableCheck: true}, &componentdialer.Property{})
	}
	cores := make([]*controlPlaneCore, c.Gens)
	drains := make([]*controlPlaneDrainTracker, c.Gens)
	for i := range cores {
		cores[i] = &controlPlaneCore{}
		drains[i] = newControlPlaneDrainTracker()
	}
	nt := &componentdialer.NetworkType{L4Proto: consts.L4ProtoStr_UDP, IpVersion: consts.IpVersionStr_4, IsDns: false,
		UdpHealthDomain: componentdialer.UdpHealthDomainData}
	var handles []*UdpEndpoint
	idOf := func(ue *UdpEndpoint) int {
		if ue == nil {
			return -1
		}
		for i, h := range handles {
			if h == ue {
				return i
			}
		}
		handles = append(handles, ue)
		return len(handles) - 1
	}
	tupleIdx := map[bpfTuplesKey]int{}
	tupleAddr := func(t int) (netip.AddrPort, netip.AddrPort) {
		return netip.AddrPortFrom(netip.AddrFrom4([4]byte{10, 9, 0, byte(t + 1)}), 5000),
			netip.AddrPortFrom(netip.AddrFrom4([4]byte{198, 51, 100, 7}), 443)
	}
	for t := 0; t < 4; t++ {
		s, d := tupleAddr(t)
		tupleIdx[bpfTuplesKeyFromAddrPorts(s, d, 17)] = 2 * t
		tupleIdx[bpfTuplesKeyFromAddrPorts(d, s, 17)] = 2*t + 1
	}
	opt := func(op c13EOp) *UdpEndpointOptions {
		return &UdpEndpointOptions{
			Handler:        func(*UdpEndpoint, []byte, netip.AddrPort) error { return nil },
			NatTimeout:     time.Hour,
			ConnStateOwner: cores[op.G],
			DrainTracker:   drains[op.G],
			GetDialOption: func(context.Context) (*DialOption, error) {
				if op.Out == 2 {
					return nil, ob.ErrNoAliveDialer
				}
				return &DialOption{Dialer: dialers[op.D], Network: "udp", Target: "198.51.100.1:443", NetworkType: nt}, nil
			},
		}
	}
	totalDials := func() int {
		n := 0
		for _, u := range under {
			u.mu.Lock()
			n += u.dials
			u.mu.Unlock()
		}
		return n
	}
	for _, op := range c.Ops {
		st := c13EStep{Ret: -1}
		switch op.Kind {
		case "goc":
			under[op.D].mu.Lock()
			under[op.D].fail = op.Out == 1
			under[op.D].mu.Unlock()
			ue, isNew, err := p.GetOrCreate(c13EKey(op.K), opt(op))
			st.Ret, st.IsNew = idOf(ue), isNew
			if err != nil {
				st.Err = 2
				if stderrors.Is(err, ErrEndpointFailed) {
					st.Err = 1
				}
			}
		case "burst":
			u := under[op.D]
			u.mu.Lock()
			u.fail = false
			u.gate = make(chan struct{})
			gate := u.gate
			u.mu.Unlock()
			type r struct {
				ue  *UdpEndpoint
				err error
			}
			out := make(chan r, op.N)
			for i := 0; i < op.N; i++ {
				go func() {
					ue, _, err := p.GetOrCreate(c13EKey(op.K), opt(op))
					out <- r{ue, err}
				}()
			}
			time.Sleep(2 * time.Millisecond)
			close(gate)
			seen := map[*UdpEndpoint]bool{}
			for i := 0; i < op.N; i++ {
				x := <-out
				if x.err != nil {
					st.Err = 2
					if stderrors.Is(x.err, ErrEndpointFailed) {
						st.Err = 1
					}
				}
				seen[x.ue] = true
				st.Ret = idOf(x.ue)
			}
			st.Distinct = len(seen)
			u.mu.Lock()
			u.gate = nil
			u.mu.Unlock()
		case "write":
			if op.E < len(handles) {
				ue := handles[op.E]
				if cn, ok := ue.conn.(*c13Conn); ok {
					cn.mu.Lock()
					cn.writeErr = op.Out == 1
					cn.mu.Unlock()
				}
				if _, err := ue.WriteTo([]byte("x"), "198.51.100.1:443"); err != nil {
					st.Err = 2
				}
			}
		case "track":
			if op.E < len(handles) {
				s, d := tupleAddr(op.T)
				handles[op.E].TrackUdpConnStateTuplePair(s, d)
			}
		case "inval":
			p.InvalidateDialerNetworkType(dialers[op.D], nt)
		case "reset":
			p.Reset()
		case "remove":
			// a flow drops its handle, as handlePkt / checkUdpEndpointHealth do: Remove(key it was obtained with, handle)
			if op.E < len(handles) {
				_ = p.Remove(handles[op.E].poolKey, handles[op.E])
			}
		}
		st.Dials = totalDials()
		for _, h := range handles {
			dead, cc := 0, 0
			if h.IsDead() {
				dead = 1
			}
			if cn, ok := h.conn.(*c13Conn); ok {
				cn.mu.Lock()
				cc = cn.closeCalls
				cn.mu.Unlock()
			}
			st.Eps = append(st.Eps, []int{dead, cc})
		}
		for k := 0; k < c.Keys; k++ {
			key := c13EKey(k)
			sh := p.shardFor(key)
			sh.mu.RLock()
			ue, ok := sh.pool[key]
			sh.mu.RUnlock()
			v := -1
			if ok {
				if ue.failed.Load() {
					v = -2
				} else {
					v = -3
					for i, h := range handles {
						if h == ue {
							v = i
						}
					}
				}
			}
			st.Pool = append(st.Pool, v)
		}
		st.Tuples = [][]int{}
		for g, cr := range cores {
			tr := cr.getUdpConnStateTracker()
			tr.mu.Lock()
			for k, e := range tr.entries {
				st.Tuples = append(st.Tuples, []int{g, tupleIdx[k], e.refs})
			}
			tr.mu.Unlock()
			st.Drain = append(st.Drain, drains[g].Count())
		}
		sort.Slice(st.Tuples, func(a, b int) bool {
			if st.Tuples[a][0] != st.Tuples[b][0] {
				return st.Tuples[a][0] < st.Tuples[b][0]
			}
			return st.Tuples[a][1] < st.Tuples[b][1]
		})
		res = append(res, st)
	}
	p.Reset()
	return res
}

func TestVerifC13Endpoint(t *testing.T) {
	verifEachLine(t, func(line []byte) any {
		var c c13ECase
		if err := json.Unmarshal(line, &c); err != nil {
			return map[string]string{"panic": "bad case: " + err.Error()}
		}
		return map[string]any{"steps": c13RunECase(c)}
	})
}

// ---------------------------------------------------------------------------------------------
// part 4: UdpEndpointPool under a deterministic scheduler on the endpoint yield points.
// GetOrCreate callers are goroutines that park at endpoint.getorcreate.after_stale_unlock,
// endpoint.create.after_generation / before_publish / before_register; a caller blocked on the shard's
// creation mutex is recognised by its goroutine state.  Invalidate / WriteTo / Track / Reset run
// inline between the callers' steps.
// ---------------------------------------------------------------------------------------------

type c13FThread struct {
	K   int `json:"k"`
	D   int `json:"d"`
	G   int `json:"g"`
	Out int `json:"out"`
}

type c13FCmd struct {
	Kind string `json:"kind"` // step | write | track | inval | reset | remove
	I    int    `json:"i"`    // step: thread
	E    int    `json:"e"`    // write/track: handle (dial order)
	Out  int    `json:"out"`
	T    int    `json:"t"`
	D    int    `json:"d"`
}

type c13FCase struct {
	Keys    int          `json:"keys"`
	Dialers int          `json:"dialers"`
	Gens    int          `json:"gens"`
	Threads []c13FThread `json:"threads"`
	Cmds    []c13FCmd    `json:"cmds"`
}

type c13FStep struct {
	Cmd    c13FCmd `json:"cmd"`
	Thr    [][]int `json:"thr"`    // per thread: state (0 unstarted 1 blocked 2..5 parked 6 done), result code
	Events [][]int `json:"events"` // [0,e,thread] dial  [1,thread,e] hand-out  [2,e] write ok  [3,e] write error  [4,d] inval  [5] reset
	Dials  int     `json:"dials"`
	Eps    [][]int `json:"eps"`
	Pool   []int   `json:"pool"`
	Tuples [][]int `json:"tuples"`
	Drain  []int   `json:"drain"`
}

type c13FRes struct {
	Steps         []c13FStep `json:"steps"`
	FinalCloses   []int      `json:"final_closes"` // transport close calls per endpoint after the final pool Reset
	Stuck         string     `json:"stuck,omitempty"`
	StuckDump     string     `json:"stuck_dump,omitempty"`
	StuckRunnable bool       `json:"stuck_runnable,omitempty"`
}

type c13FEntry struct {
	thread, point int
	rel           chan struct{}
}

type c13FSched struct {
	mu      sync.Mutex
	parked  map[int]*c13FEntry // by thread
	gidThr  map[int64]int
	thrGid  []int64
	started []bool
	done    []bool
	resCode []int
	events  [][]int
	conns   []*c13Conn
	connUe  map[*c13Conn]*UdpEndpoint
	abort   bool
	wake    chan struct{}
	pending atomic.Int32 // instrumented threads inside or waiting for a critical section of mu
}

// tlock / tunlock: the scheduler lock as taken by instrumented threads; a thread blocked here has the same
// goroutine state as one blocked on the pool's creation mutex, the counter tells them apart
func (s *c13FSched) tlock()   { s.pending.Add(1); s.mu.Lock() }
func (s *c13FSched) tunlock() { s.mu.Unlock(); s.pending.Add(-1) }

func (s *c13FSched) hook(point string) {
	code := 0
	switch point {
	case "endpoint.getorcreate.after_stale_unlock":
		code = 2
	case "endpoint.create.after_generation":
		code = 3
	case "endpoint.create.before_publish":
		code = 4
	case "endpoint.create.before_register":
		code = 5
	default:
		return
	}
	gid := c13Goid()
	s.tlock()
	i, ok := s.gidThr[gid]
	if !ok || s.abort {
		s.tunlock()
		return
	}
	e := &c13FEntry{thread: i, point: code, rel: make(chan struct{})}
	s.parked[i] = e
	s.tunlock()
	c13Signal(s.wake)
	<-e.rel
}

func (s *c13FSched) handleOf(ue *UdpEndpoint) int {
	if ue == nil {
		return -1
	}
	cn, ok := ue.conn.(*c13Conn)
	if !ok {
		return -1
	}
	for i, c := range s.conns {
		if c == cn {
			s.connUe[cn] = ue
			return i
		}
	}
	return -1
}

type c13FDialer struct {
	s    *c13FSched
	fail map[int]bool // by thread
}

func (d *c13FDialer) DialContext(ctx context.Context, _ string, _ string) (netproxy.Conn, error) {
	gid := c13Goid()
	d.s.tlock()
	defer d.s.tunlock()
	th, ok := d.s.gidThr[gid]
	if ok && d.fail[th] {
		d.s.events = append(d.s.events, []int{6, th})
		return nil, io.ErrUnexpectedEOF
	}
	c := &c13Conn{closeCh: make(chan struct{})}
	d.s.conns = append(d.s.conns, c)
	d.s.events = append(d.s.events, []int{0, len(d.s.conns) - 1, th})
	return c, nil
}

func c13RunFCase(c c13FCase) (res c13FRes) {
	p := &UdpEndpointPool{}
	for i := range p.shards {
		p.shards[i].pool = make(map[UdpEndpointKey]*UdpEndpoint)
	}
	// keys in pairwise distinct creation shards (the model has one creation mutex per key)
	keys := make([]UdpEndpointKey, 0, c.Keys)
	used := map[*udpEndpointPoolShard]bool{}
	for port := 4000; len(keys) < c.Keys; port++ {
		k := UdpEndpointKey{Src: netip.AddrPortFrom(netip.AddrFrom4([4]byte{192, 0, 2, 1}), uint16(port))}
		if sh := p.shardFor(k); !used[sh] {
			used[sh] = true
			keys = append(keys, k)
		}
	}
	s := &c13FSched{parked: map[int]*c13FEntry{}, gidThr: map[int64]int{}, thrGid: make([]int64, len(c.Threads)),
		started: make([]bool, len(c.Threads)), done: make([]bool, len(c.Threads)), resCode: make([]int, len(c.Threads)),
		connUe: map[*c13Conn]*UdpEndpoint{}, wake: make(chan struct{}, 1)}
	VerifYield = s.hook
	logger := logrus.New()
	logger.SetOutput(io.Discard)
	under := make([]*c13FDialer, c.Dialers)
	dialers := make([]*componentdialer.Dialer, c.Dialers)
	for i := range dialers {
		under[i] = &c13FDialer{s: s, fail: map[int]bool{}}
		dialers[i] = componentdialer.NewDialer(under[i], &componentdialer.GlobalOption{Log: logger, CheckInterval: time.Second},
			componentdialer.InstanceOption{DisableCheck: true}, &componentdialer.Property{})
	}
	for i, t := range c.Threads {
		under[t.D].fail[i] = t.Out == 1
	}
	cores := make([]*controlPlaneCore, c.Gens)
	drains := make([]*controlPlaneDrainTracker, c.Gens)
	for i := range cores {
		cores[i] = &controlPlaneCore{}
		drains[i] = newControlPlaneDrainTracker()
	}
	nt := &componentdialer.NetworkType{L4Proto: consts.L4ProtoStr_UDP, IpVersion: consts.IpVersionStr_4, IsDns: false,
		UdpHealthDomain: componentdialer.UdpHealthDomainData}
	tupleIdx := map[bpfTuplesKey]int{}
	tupleAddr := func(t int) (netip.AddrPort, netip.AddrPort) {
		return netip.AddrPortFrom(netip.AddrFrom4([4]byte{10, 9, 0, byte(t + 1)}), 5000),
			netip.AddrPortFrom(netip.AddrFrom4([4]byte{198, 51, 100, 7}), 443)
	}
	for t := 0; t < 4; t++ {
		a, b := tupleAddr(t)
		tupleIdx[bpfTuplesKeyFromAddrPorts(a, b, 17)] = 2 * t
		tupleIdx[bpfTuplesKeyFromAddrPorts(b, a, 17)] = 2*t + 1
	}
	defer func() {
		s.mu.Lock()
		s.abort = true
		for i, e := range s.parked {
			close(e.rel)
			delete(s.parked, i)
		}
		s.mu.Unlock()
		time.Sleep(300 * time.Microsecond)
		p.Reset()
		VerifYield = nil
	}()
	start := func(i int) {
		t := c.Threads[i]
		s.started[i] = true
		go func() {
			gid := c13Goid()
			s.tlock()
			s.gidThr[gid] = i
			s.thrGid[i] = gid
			s.tunlock()
			opt := &UdpEndpointOptions{
				Handler:        func(*UdpEndpoint, []byte, netip.AddrPort) error { return nil },
				NatTimeout:     time.Hour,
				ConnStateOwner: cores[t.G],
				DrainTracker:   drains[t.G],
				GetDialOption: func(context.Context) (*DialOption, error) {
					if t.Out == 2 {
						return nil, ob.ErrNoAliveDialer
					}
					return &DialOption{Dialer: dialers[t.D], Network: "udp", Target: "198.51.100.1:443", NetworkType: nt}, nil
				},
			}
			ue, isNew, err := p.GetOrCreate(keys[t.K], opt)
			s.tlock()
			code := 0
			if err != nil {
				code = 4
				if stderrors.Is(err, ErrEndpointFailed) {
					code = 2
				}
			}
			if isNew {
				code++
			}
			s.resCode[i] = code
			if ue != nil {
				s.events = append(s.events, []int{1, i, s.handleOf(ue)})
			}
			s.done[i] = true
			s.tunlock()
			c13Signal(s.wake)
		}()
	}
	settle := func() string {
		deadline := c13SettleDeadline()
		for round := 0; ; round++ {
			c13Pause(s.wake, round)
			s.mu.Lock()
			st := c13Statuses() // under the lock: see c13Sched.settle
			stable := s.pending.Load() == 0
			for i := range c.Threads {
				if !s.started[i] || s.parked[i] != nil {
					continue
				}
				g := s.thrGid[i]
				if g == 0 {
					stable = false
					continue
				}
				status, alive := st[g]
				if s.done[i] {
					if alive {
						stable = false
					}
					continue
				}
				if !alive || !(strings.HasPrefix(status, "sync.Mutex.Lock") || strings.HasPrefix(status, "semacquire") || strings.HasPrefix(status, "sync.RWMutex")) {
					stable = false
				}
			}
			s.mu.Unlock()
			if stable {
				return ""
			}
			if time.Now().After(deadline) {
				return "settle timeout"
			}
		}
	}
	observe := func(cmd c13FCmd) c13FStep {
		s.mu.Lock()
		defer s.mu.Unlock()
		st := c13FStep{Cmd: cmd, Events: s.events, Eps: [][]int{}, Tuples: [][]int{}}
		if st.Events == nil {
			st.Events = [][]int{}
		}
		s.events = nil
		for i := range c.Threads {
			code := 0
			switch {
			case !s.started[i]:
			case s.done[i]:
				code = 6
			case s.parked[i] != nil:
				code = s.parked[i].point
			default:
				code = 1
			}
			rc := 0
			if code == 6 {
				rc = s.resCode[i]
			}
			st.Thr = append(st.Thr, []int{code, rc})
		}
		for _, u := range under {
			_ = u
		}
		st.Dials = 0
		for _, ev := range [][]int{} {
			_ = ev
		}
		// pool view (also teaches us the endpoint objects of published conns)
		for k := 0; k < c.Keys; k++ {
			sh := p.shardFor(keys[k])
			sh.mu.RLock()
			ue, ok := sh.pool[keys[k]]
			sh.mu.RUnlock()
			v := -1
			if ok {
				if ue.failed.Load() {
					v = -2
				} else {
					v = s.handleOf(ue)
					if v < 0 {
						v = -3
					}
				}
			}
			st.Pool = append(st.Pool, v)
		}
		for _, cn := range s.conns {
			dead := 0
			if ue := s.connUe[cn]; ue != nil && ue.IsDead() {
				dead = 1
			}
			cn.mu.Lock()
			cc := cn.closeCalls
			cn.mu.Unlock()
			st.Eps = append(st.Eps, []int{dead, cc})
		}
		for g, cr := range cores {
			tr := cr.getUdpConnStateTracker()
			tr.mu.Lock()
			for k, e := range tr.entries {
				st.Tuples = append(st.Tuples, []int{g, tupleIdx[k], e.refs})
			}
			tr.mu.Unlock()
			st.Drain = append(st.Drain, drains[g].Count())
		}
		sort.Slice(st.Tuples, func(a, b int) bool {
			if st.Tuples[a][0] != st.Tuples[b][0] {
				return st.Tuples[a][0] < st.Tuples[b][0]
			}
			return st.Tuples[a][1] < st.Tuples[b][1]
		})
		return st
	}
	dialCount := 0
	exec := func(cmd c13FCmd) bool {
		switch cmd.Kind {
		case "step":
			if cmd.I < len(c.Threads) {
				s.mu.Lock()
				e := s.parked[cmd.I]
				if e != nil {
					delete(s.parked, cmd.I)
				}
				startIt := !s.started[cmd.I]
				s.mu.Unlock()
				if e != nil {
					close(e.rel)
				} else if startIt {
					start(cmd.I)
				}
			}
		case "write":
			s.mu.Lock()
			var ue *UdpEndpoint
			handed := false
			if cmd.E < len(s.conns) {
				ue = s.connUe[s.conns[cmd.E]]
			}
			_ = handed
			s.mu.Unlock()
			if ue != nil && c13FHanded(res.Steps, cmd.E) {
				cn := s.conns[cmd.E]
				cn.mu.Lock()
				cn.writeErr = cmd.Out == 1
				cn.mu.Unlock()
				_, err := ue.WriteTo([]byte("x"), "198.51.100.1:443")
				s.mu.Lock()
				if err != nil {
					s.events = append(s.events, []int{3, cmd.E})
				} else {
					s.events = append(s.events, []int{2, cmd.E})
				}
				s.mu.Unlock()
			}
		case "track":
			s.mu.Lock()
			var ue *UdpEndpoint
			if cmd.E < len(s.conns) {
				ue = s.connUe[s.conns[cmd.E]]
			}
			s.mu.Unlock()
			if ue != nil && c13FHanded(res.Steps, cmd.E) {
				a, b := tupleAddr(cmd.T)
				ue.TrackUdpConnStateTuplePair(a, b)
			}
		case "inval":
			p.InvalidateDialerNetworkType(dialers[cmd.D], nt)
			s.mu.Lock()
			s.events = append(s.events, []int{4, cmd.D})
			s.mu.Unlock()
		case "reset":
			p.Reset()
			s.mu.Lock()
			s.events = append(s.events, []int{5})
			s.mu.Unlock()
		case "remove":
			s.mu.Lock()
			var ue *UdpEndpoint
			if cmd.E < len(s.conns) {
				ue = s.connUe[s.conns[cmd.E]]
			}
			s.mu.Unlock()
			if ue != nil && c13FHanded(res.Steps, cmd.E) {
				_ = p.Remove(ue.poolKey, ue)
				s.mu.Lock()
				s.events = append(s.events, []int{7, cmd.E})
				s.mu.Unlock()
			}
		}
		if stuck := settle(); stuck != "" {
			res.Stuck = stuck
			s.mu.Lock()
			gids := map[int64]bool{}
			for i, g := range s.thrGid {
				if g != 0 && !s.done[i] {
					gids[g] = true
				}
			}
			s.mu.Unlock()
			res.StuckDump, res.StuckRunnable = c13StuckDump(gids)
			return false
		}
		st := observe(cmd)
		for _, ev := range st.Events {
			if ev[0] == 0 || ev[0] == 6 {
				dialCount++
			}
		}
		st.Dials = dialCount
		res.Steps = append(res.Steps, st)
		return true
	}
	for _, cmd := range c.Cmds {
		if !exec(cmd) {
			return res
		}
	}
	// drain: step every unfinished thread (lowest index first) until all have returned
	for n := 0; n < 8*len(c.Threads)+8; n++ {
		next := -1
		s.mu.Lock()
		for i := range c.Threads {
			if !s.done[i] && (!s.started[i] || s.parked[i] != nil) {
				next = i
				break
			}
		}
		s.mu.Unlock()
		if next < 0 {
			break
		}
		if !exec(c13FCmd{Kind: "step", I: next}) {
			return res
		}
	}
	p.Reset()
	for _, cn := range s.conns {
		cn.mu.Lock()
		res.FinalCloses = append(res.FinalCloses, cn.closeCalls)
		cn.mu.Unlock()
	}
	return res
}

// an endpoint may be written to only after some caller was handed it
func c13FHanded(steps []c13FStep, e int) bool {
	for _, st := range steps {
		for _, ev := range st.Events {
			if ev[0] == 1 && ev[2] == e {
				return true
			}
		}
	}
	return false
}

func TestVerifC13EndpointFine(t *testing.T) {
	verifEachLine(t, func(line []byte) any {
		var c c13FCase
		if err := json.Unmarshal(line, &c); err != nil {
			return map[string]string{"panic": "bad case: " + err.Error()}
		}
		if c13StuckCount >= 5 {
			return map[string]any{"skipped": true}
		}
		r := c13RunFCase(c)
		if r.Stuck != "" {
			c13StuckCount++
		}
		return r
	})
}

// ---------------------------------------------------------------------------------------------
// part 5: udpConnStateTracker with concurrent owners.  Each owner is a goroutine that retains its tuple
// (and may block in cond.Wait while the entry is being deleted), then keeps, releases (BeginRelease /
// kernel delete / FinalizeRelease as separately released steps, the body of
// controlPlaneCore.ReleaseUdpConnStateTuples) or forgets it.
// ---------------------------------------------------------------------------------------------

type c13TFThread struct {
	K    int `json:"k"`
	Mode int `json:"mode"` // 0 keep, 1 release, 2 forget
}

type c13TFCase struct {
	Keys    int           `json:"keys"`
	Threads []c13TFThread `json:"threads"`
	Cmds    []int         `json:"cmds"`
}

type c13TFStep struct {
	Cmd     int     `json:"cmd"`
	Thr     []int   `json:"thr"`     // 0 unstarted 1 blocked in retain 2 owner 3 begun (kernel delete pending) 4 deleted (finalize pending) 5 done 6 blocked in forget
	Entries [][]int `json:"entries"` // per key: refs, deleting (-1,-1 when absent)
	Deletes []int   `json:"deletes"` // kernel deletes issued by this command (tuple)
}

type c13TFRes struct {
	Steps         []c13TFStep `json:"steps"`
	Stuck         string      `json:"stuck,omitempty"`
	StuckDump     string      `json:"stuck_dump,omitempty"`
	StuckRunnable bool        `json:"stuck_runnable,omitempty"`
}

func c13RunTFCase(c c13TFCase) (res c13TFRes) {
	tr := newUdpConnStateTracker()
	n := len(c.Threads)
	var mu sync.Mutex
	state := make([]int, n)    // as reported
	waiting := make([]bool, n) // parked on its step channel
	inCall := make([]int, n)   // 0 none, 1 inside Retain, 2 inside Forget
	exited := make([]bool, n)
	gids := make([]int64, n)
	stepCh := make([]chan struct{}, n)
	var deletes []int
	wake := make(chan struct{}, 1)
	abort := false
	for i := range stepCh {
		stepCh[i] = make(chan struct{})
	}
	park := func(i int) {
		mu.Lock()
		if abort {
			mu.Unlock()
			return
		}
		waiting[i] = true
		mu.Unlock()
		c13Signal(wake)
		<-stepCh[i] // the releasing side clears waiting[i] before it sends
	}
	set := func(i, st int) {
		mu.Lock()
		state[i] = st
		mu.Unlock()
	}
	for i := range c.Threads {
		go func() {
			t := c.Threads[i]
			keys := []bpfTuplesKey{c13TupleKey(t.K)}
			mu.Lock()
			gids[i] = c13Goid()
			mu.Unlock()
			defer func() {
				mu.Lock()
				exited[i] = true
				mu.Unlock()
				c13Signal(wake)
			}()
			park(i)
			mu.Lock()
			inCall[i] = 1
			mu.Unlock()
			tr.Retain(keys)
			mu.Lock()
			inCall[i] = 0
			state[i] = 2
			mu.Unlock()
			if t.Mode == 0 {
				return
			}
			park(i)
			if t.Mode == 1 {
				rel := tr.BeginRelease(keys)
				if len(rel) > 0 {
					set(i, 3)
					park(i)
					mu.Lock()
					for _, r := range rel {
						_ = r
						deletes = append(deletes, t.K)
					}
					state[i] = 4
					mu.Unlock()
					park(i)
				}
				tr.FinalizeRelease(rel)
				set(i, 5)
				return
			}
			mu.Lock()
			inCall[i] = 2
			mu.Unlock()
			tr.Forget(keys)
			mu.Lock()
			inCall[i] = 0
			state[i] = 5
			mu.Unlock()
		}()
	}
	defer func() {
		mu.Lock()
		abort = true
		mu.Unlock()
		for i := range stepCh {
			close(stepCh[i])
		}
	}()
	settle := func() string {
		deadline := c13SettleDeadline()
		for round := 0; ; round++ {
			c13Pause(wake, round)
			mu.Lock()
			st := c13Statuses() // under the lock: see c13Sched.settle
			stable := true
			for i := range c.Threads {
				if waiting[i] || exited[i] {
					continue
				}
				status, alive := st[gids[i]]
				if gids[i] == 0 || !alive || !(inCall[i] != 0 && strings.HasPrefix(status, "sync.Cond.Wait")) {
					stable = false
				}
			}
			mu.Unlock()
			if stable {
				return ""
			}
			if time.Now().After(deadline) {
				return "settle timeout"
			}
		}
	}
	observe := func(cmd int) c13TFStep {
		mu.Lock()
		defer mu.Unlock()
		st := c13TFStep{Cmd: cmd, Deletes: deletes, Entries: [][]int{}}
		if st.Deletes == nil {
			st.Deletes = []int{}
		}
		deletes = nil
		for i := range c.Threads {
			v := state[i]
			if !waiting[i] && !exited[i] && inCall[i] == 1 {
				v = 1
			}
			if !waiting[i] && !exited[i] && inCall[i] == 2 {
				v = 6
			}
			st.Thr = append(st.Thr, v)
		}
		tr.mu.Lock()
		for k := 0; k < c.Keys; k++ {
			if e, ok := tr.entries[c13TupleKey(k)]; ok {
				d := 0
				if e.deleting {
					d = 1
				}
				st.Entries = append(st.Entries, []int{e.refs, d})
			} else {
				st.Entries = append(st.Entries, []int{-1, -1})
			}
		}
		tr.mu.Unlock()
		return st
	}
	stuckInfo := func() {
		g := map[int64]bool{}
		mu.Lock()
		for i := range gids {
			if !exited[i] {
				g[gids[i]] = true
			}
		}
		mu.Unlock()
		res.StuckDump, res.StuckRunnable = c13StuckDump(g)
	}
	if stuck := settle(); stuck != "" { // all threads parked at their start
		res.Stuck = stuck
		stuckInfo()
		return res
	}
	exec := func(i int) bool {
		if i >= 0 && i < n {
			mu.Lock()
			w := waiting[i]
			if w {
				waiting[i] = false // from now on the thread counts as running until it parks again, blocks or exits
			}
			mu.Unlock()
			if w {
				stepCh[i] <- struct{}{}
			}
		}
		if stuck := settle(); stuck != "" {
			res.Stuck = stuck
			stuckInfo()
			return false
		}
		res.Steps = append(res.Steps, observe(i))
		return true
	}
	for _, i := range c.Cmds {
		if !exec(i) {
			return res
		}
	}
	for round := 0; round < 6*n+6; round++ {
		next := -1
		mu.Lock()
		for i := range c.Threads {
			if waiting[i] {
				next = i
				break
			}
		}
		mu.Unlock()
		if next < 0 {
			break
		}
		if !exec(next) {
			return res
		}
	}
	return res
}

func TestVerifC13TrackerFine(t *testing.T) {
	verifEachLine(t, func(line []byte) any {
		var c c13TFCase
		if err := json.Unmarshal(line, &c); err != nil {
			return map[string]string{"panic": "bad case: " + err.Error()}
		}
		if c13StuckCount >= 5 {
			return map[string]any{"skipped": true}
		}
		r := c13RunTFCase(c)
		if r.Stuck != "" {
			c13StuckCount++
		}
		return r
	})
}

// ---------------------------------------------------------------------------------------------
// part 6: udpIngressBatchReader — ownership of the per-packet ingress buffers (ReadBatch -> Take -> task).
// The real reader is driven with a scripted batch source; the task of a taken packet stays pending (it holds
// the buffer Take handed out) until a "run" command, while further batches arrive in the same slots.
// ---------------------------------------------------------------------------------------------

type c13IOp struct {
	Kind string  `json:"kind"` // read take run close
	Dgs  [][]int `json:"dgs"`  // read: (payload, address valid)
	I    int     `json:"i"`
	T    int     `json:"t"`
}

type c13ICase struct {
	Slots int      `json:"slots"`
	Ops   []c13IOp `json:"ops"`
}

type c13IStep struct {
	Slots [][]int `json:"slots"` // per slot: buf id, buffers[0] id (-1 nil)
	Tasks [][]int `json:"tasks"` // per task: buffer id, expected payload, done, handled payload
	Puts  []int   `json:"puts"`  // buffers returned to the pool by this operation
}

type c13BatchSource struct {
	next [][]int
}

func (c *c13BatchSource) ReadBatch(ms []ipv6.Message, _ int) (int, error) {
	n := len(c.next)
	if n > len(ms) {
		n = len(ms)
	}
	for j := 0; j < n; j++ {
		b := ms[j].Buffers[0]
		binary.BigEndian.PutUint32(b, uint32(c.next[j][0]))
		ms[j].N = 4
		ms[j].NN = 0
		if c.next[j][1] != 0 {
			ms[j].Addr = &net.UDPAddr{IP: net.IPv4(127, 0, 0, 1), Port: 4000 + c.next[j][0]%1000}
		} else {
			ms[j].Addr = nil
		}
	}
	return n, nil
}

type c13ITask struct {
	buf     []byte
	put     func()
	id      int
	expect  int
	done    bool
	handled int
}

func c13RunICase(c c13ICase) (res []c13IStep) {
	src := &c13BatchSource{}
	var r *udpIngressBatchReader
	if conn, err := net.ListenUDP("udp4", &net.UDPAddr{IP: net.IPv4(127, 0, 0, 1)}); err == nil {
		defer conn.Close()
		r = newUDPIngressBatchReader(conn, c.Slots)
	}
	if r == nil {
		r = &udpIngressBatchReader{slots: make([]udpIngressBatchSlot, c.Slots), msgs: make([]ipv6.Message, c.Slots)}
		for i := range r.slots {
			r.slots[i].buffers = make([][]byte, 1)
			r.msgs[i].Buffers = r.slots[i].buffers
			r.msgs[i].OOB = r.slots[i].oob[:]
		}
	}
	r.pc = src
	live := map[*byte]int{}
	nextID := 0
	idOf := func(b []byte) int {
		if b == nil || cap(b) == 0 {
			return -1
		}
		p := &b[:1][0]
		if id, ok := live[p]; ok {
			return id
		}
		live[p] = nextID
		nextID++
		return nextID - 1
	}
	forget := func(b []byte) {
		if b != nil && cap(b) > 0 {
			delete(live, &b[:1][0])
		}
	}
	var tasks []*c13ITask
	lastPayload := make([]int, c.Slots)
	observe := func(puts []int) {
		st := c13IStep{Puts: puts, Slots: [][]int{}, Tasks: [][]int{}}
		if st.Puts == nil {
			st.Puts = []int{}
		}
		for i := range r.slots {
			st.Slots = append(st.Slots, []int{idOf(r.slots[i].buf), idOf(r.slots[i].buffers[0])})
		}
		for _, t := range tasks {
			d := 0
			if t.done {
				d = 1
			}
			st.Tasks = append(st.Tasks, []int{t.id, t.expect, d, t.handled})
		}
		res = append(res, st)
	}
	exec := func(op c13IOp) {
		var puts []int
		switch op.Kind {
		case "read":
			src.next = op.Dgs
			_, _ = r.ReadBatch()
			for j := range lastPayload {
				lastPayload[j] = -1
			}
			for j, d := range op.Dgs {
				if j < c.Slots {
					lastPayload[j] = d[0]
				}
			}
		case "take":
			if op.I >= 0 && op.I < c.Slots {
				before := r.slots[op.I].buf
				beforeID := -1
				if before != nil {
					beforeID = idOf(before)
				}
				buf, _, _, ok := r.Take(op.I)
				if ok {
					b := []byte(buf)
					tasks = append(tasks, &c13ITask{buf: b, put: buf.Put, id: idOf(b), expect: lastPayload[op.I]})
				} else if before != nil && r.slots[op.I].buf == nil {
					// no valid source address: Take returned the buffer to the pool
					puts = append(puts, beforeID)
					forget(before)
				}
			}
		case "run":
			if op.T >= 0 && op.T < len(tasks) && !tasks[op.T].done {
				t := tasks[op.T]
				t.handled = int(binary.BigEndian.Uint32(t.buf[:4]))
				t.done = true
				puts = append(puts, t.id)
				forget(t.buf)
				t.put()
			}
		case "close":
			var held [][]byte
			for i := range r.slots {
				if r.slots[i].buf != nil {
					held = append(held, r.slots[i].buf)
				}
			}
			heldB0 := make([]bool, len(r.slots))
			for i := range r.slots {
				heldB0[i] = r.slots[i].buffers[0] != nil
			}
			r.Close()
			for _, b := range held {
				// a buffer that was in a slot and is not owned by a pending task is taken to be returned
				owned := false
				for _, t := range tasks {
					if !t.done && len(t.buf) > 0 && &t.buf[:1][0] == &b[:1][0] {
						owned = true
					}
				}
				if !owned {
					puts = append(puts, idOf(b))
					forget(b)
				}
			}
		}
		observe(puts)
	}
	for _, op := range c.Ops {
		exec(op)
	}
	for i, t := range tasks {
		if !t.done {
			exec(c13IOp{Kind: "run", T: i})
		}
	}
	exec(c13IOp{Kind: "close"})
	return res
}

func TestVerifC13Ingress(t *testing.T) {
	verifEachLine(t, func(line []byte) any {
		var c c13ICase
		if err := json.Unmarshal(line, &c); err != nil {
			return map[string]string{"panic": "bad case: " + err.Error()}
		}
		return map[string]any{"steps": c13RunICase(c)}
	})
}

// ---------------------------------------------------------------------------------------------
// part 7: generations (controlPlaneCore) sharing the per-BPF conn-state tracker across a reload hand-over:
// newControlPlaneCore on a shared *bpfObjects, core.Close (forced retirement), Retain / Release / Transfer
// through the real core entry points, by open and by closed cores.
// ---------------------------------------------------------------------------------------------

type c13GOp struct {
	Kind string `json:"kind"` // new close retain release transfer
	B    int    `json:"b"`
	C    int    `json:"c"`
	C2   int    `json:"c2"` // transfer: from
	K    int    `json:"k"`
}

type c13GCase struct {
	Bpfs int      `json:"bpfs"`
	Keys int      `json:"keys"`
	Ops  []c13GOp `json:"ops"`
}

type c13GStep struct {
	Reg     [][]int `json:"reg"`     // per BPF object set: registry references (-1: no entry)
	Entries [][]int `json:"entries"` // (bpf, tuple, refs, deleting) of the shared trackers, sorted
}

func c13RunGCase(c c13GCase) (res []c13GStep) {
	logger := logrus.New()
	logger.SetOutput(io.Discard)
	bpfs := make([]*bpfObjects, c.Bpfs)
	for i := range bpfs {
		bpfs[i] = &bpfObjects{}
	}
	var cores []*controlPlaneCore
	defer func() {
		for _, cr := range cores {
			_ = cr.Close()
		}
		// closed cores that re-acquired the shared tracker pin the registry entry: drop the entries of this case
		sharedUdpConnStateTrackerRegistry.mu.Lock()
		for _, b := range bpfs {
			delete(sharedUdpConnStateTrackerRegistry.entries, b)
		}
		sharedUdpConnStateTrackerRegistry.mu.Unlock()
	}()
	for _, op := range c.Ops {
		switch op.Kind {
		case "new":
			if op.B < len(bpfs) {
				cr := newControlPlaneCore(logger, bpfs[op.B], nil, nil, false)
				cr.EjectBpf() // hand-over: the BPF objects outlive the generation
				cores = append(cores, cr)
			}
		case "close":
			if op.C < len(cores) {
				_ = cores[op.C].Close()
			}
		case "retain":
			if op.C < len(cores) {
				cores[op.C].RetainUdpConnStateTuples([]bpfTuplesKey{c13TupleKey(op.K)})
			}
		case "release":
			if op.C < len(cores) {
				_ = cores[op.C].ReleaseUdpConnStateTuples([]bpfTuplesKey{c13TupleKey(op.K)})
			}
		case "transfer":
			if op.C < len(cores) && op.C2 < len(cores) {
				cores[op.C].TransferRetainedUdpConnStateTuplesFrom(cores[op.C2], []bpfTuplesKey{c13TupleKey(op.K)})
			}
		}
		st := c13GStep{Reg: [][]int{}, Entries: [][]int{}}
		sharedUdpConnStateTrackerRegistry.mu.Lock()
		for b, obj := range bpfs {
			e := sharedUdpConnStateTrackerRegistry.entries[obj]
			if e == nil {
				st.Reg = append(st.Reg, []int{-1})
				continue
			}
			st.Reg = append(st.Reg, []int{e.refs})
			e.tracker.mu.Lock()
			for k := 0; k < c.Keys; k++ {
				if te, ok := e.tracker.entries[c13TupleKey(k)]; ok {
					d := 0
					if te.deleting {
						d = 1
					}
					st.Entries = append(st.Entries, []int{b, k, te.refs, d})
				}
			}
			e.tracker.mu.Unlock()
		}
		sharedUdpConnStateTrackerRegistry.mu.Unlock()
		res = append(res, st)
	}
	return res
}

func TestVerifC13TrackerGen(t *testing.T) {
	verifEachLine(t, func(line []byte) any {
		var c c13GCase
		if err := json.Unmarshal(line, &c); err != nil {
			return map[string]string{"panic": "bad case: " + err.Error()}
		}
		return map[string]any{"steps": c13RunGCase(c)}
	})
}

// ---------------------------------------------------------------------------------------------
// part 8: long single-flow backlog on the real queue with the production capacity: the worker is held inside
// the first task, k more tasks are emitted (channel, then overflow list), the worker is released; the ids
// executed must be the ids accepted, in order.  No yield hooks: plain counting.
// ---------------------------------------------------------------------------------------------

type c13BCase struct {
	K int `json:"k"`
}

type c13BRes struct {
	K        int     `json:"k"`
	ChanLen  int     `json:"chan_len"`
	OverLen  int     `json:"over_len"`
	OverCap  int     `json:"over_cap"`
	Runs     [][]int `json:"runs"` // executed ids as maximal runs (first id, length) of consecutive ids
	Executed int     `json:"executed"`
	Idle     bool    `json:"idle"` // the worker was seen blocked in its select (or gone) with nothing more to run
}

func c13RunBCase(c c13BCase) (res c13BRes) {
	res.K = c.K
	p := NewUdpTaskPool()
	defer p.Close()
	key := NewUdpFlowKey(netip.AddrPortFrom(netip.AddrFrom4([4]byte{10, 1, 0, 1}), 4000),
		netip.AddrPortFrom(netip.AddrFrom4([4]byte{198, 51, 100, 1}), 443))
	var mu sync.Mutex
	var executed []int
	var worker int64
	gate := make(chan struct{})
	entered := make(chan struct{})
	p.EmitTask(key, func() {
		mu.Lock()
		worker = c13Goid()
		mu.Unlock()
		close(entered)
		<-gate
		mu.Lock()
		executed = append(executed, 0)
		mu.Unlock()
	})
	<-entered
	for i := 1; i <= c.K; i++ {
		id := i
		p.EmitTask(key, func() {
			mu.Lock()
			executed = append(executed, id)
			mu.Unlock()
		})
	}
	if v, ok := p.queues.Load(key); ok {
		q := v.(*UdpTaskQueue)
		q.enqueueMu.Lock()
		res.ChanLen, res.OverLen, res.OverCap = len(q.ch), len(q.overflow), cap(q.overflow)
		q.enqueueMu.Unlock()
	}
	close(gate)
	deadline := c13SettleDeadline()
	last, stableRounds := -1, 0
	for time.Now().Before(deadline) {
		time.Sleep(200 * time.Microsecond)
		mu.Lock()
		n := len(executed)
		mu.Unlock()
		if n == c.K+1 {
			res.Idle = true
			break
		}
		// fewer than accepted: only conclusive when the worker itself is idle (blocked in its select) or gone
		st, alive := c13Statuses()[worker]
		if n == last && (!alive || strings.HasPrefix(st, "select")) {
			stableRounds++
			if stableRounds >= 5 {
				res.Idle = true
				break
			}
		} else {
			stableRounds = 0
		}
		last = n
	}
	mu.Lock()
	defer mu.Unlock()
	res.Executed = len(executed)
	for i := 0; i < len(executed); {
		j := i
		for j+1 < len(executed) && executed[j+1] == executed[j]+1 {
			j++
		}
		res.Runs = append(res.Runs, []int{executed[i], j - i + 1})
		i = j + 1
	}
	if res.Runs == nil {
		res.Runs = [][]int{}
	}
	return res
}

func TestVerifC13Backlog(t *testing.T) {
	verifEachLine(t, func(line []byte) any {
		var c c13BCase
		if err := json.Unmarshal(line, &c); err != nil {
			return map[string]string{"panic": "bad case: " + err.Error()}
		}
		return c13RunBCase(c)
	})
}
