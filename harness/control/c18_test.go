//go:build verif

package control

// C18 — drives the real ChooseDialTarget / NormalizeDomain / rememberDnsKnowledge / real-domain probe on
// generated histories.  Every history runs in its own testing/synctest bubble: time is the bubble's fake
// clock (exact expiry boundaries), and synctest.Wait() waits deterministically for the asynchronous probe.

import (
	"context"
	"encoding/hex"
	"encoding/json"
	"fmt"
	"io"
	"net"
	"net/netip"
	"strings"
	"sync"
	"testing"
	"testing/synctest"
	"time"

	"github.com/bits-and-blooms/bloom/v3"
	"github.com/daeuniverse/dae/common/consts"
	daerrors "github.com/daeuniverse/dae/common/errors"
	"github.com/daeuniverse/dae/common/netutils"
	"github.com/daeuniverse/dae/config"
	componentdns "github.com/daeuniverse/dae/component/dns"
	ob "github.com/daeuniverse/dae/component/outbound"
	componentdialer "github.com/daeuniverse/dae/component/outbound/dialer"
	"github.com/daeuniverse/dae/component/sniffing"
	D "github.com/daeuniverse/outbound/dialer"
	"github.com/daeuniverse/outbound/netproxy"
	dnsmessage "github.com/miekg/dns"
	"github.com/sirupsen/logrus"
)

type c18Op struct {
	Op string `json:"op"` // remember | advance | choose | real_add | neg_set
	// remember: a DNS answer for (name, qtype) with original deadline now+delta entered the cache
	Name  string `json:"name,omitempty"` // hex bytes
	Names []string `json:"names,omitempty"`
	Qtype uint16 `json:"qtype,omitempty"`
	Delta int64  `json:"delta,omitempty"` // ns, relative to the current (fake) time
	// resolve: the answer to question (name as on the wire, qtype) with TTL seconds goes through the production
	// store path (cacheKey of the question name, responseCacheKey, NormalizeAndCacheDnsResp_)
	Ttl uint32 `json:"ttl,omitempty"`
	// advance
	Dt int64 `json:"dt,omitempty"`
	// choose
	Outbound  uint8  `json:"outbound,omitempty"`
	Dst       string `json:"dst,omitempty"` // netip.AddrPort text
	Raw       string `json:"raw,omitempty"` // hex bytes of the sniffed value
	Normalize bool   `json:"normalize,omitempty"`
	Answer    string `json:"answer,omitempty"` // found | found6 | norecord | halffail | fail
	// dial (chooseProxyDialer): like choose, plus the outbound the routing fallback rule names
	RouteTo uint8  `json:"route_to,omitempty"`
	// route_dial (routeDial): like dial; the node dialer fails its first FailFirst dials with "network unreachable"
	FailFirst int `json:"fail_first,omitempty"`
	Network string `json:"network,omitempty"`
}

type c18Case struct {
	BloomN    uint    `json:"bloom_n"` // parameters of realDomainSet as written in NewControlPlane (translator)
	BloomP    float64 `json:"bloom_p"`
	Mode      string  `json:"mode"`
	Resolvers int     `json:"resolvers"`
	Ops       []c18Op `json:"ops"`
}

type c18Split struct {
	Ok   bool   `json:"ok"`
	Host string `json:"host"`
	Port string `json:"port"`
}

type c18Str struct { // Go library answers about one string (the oracles of the model)
	S     string   `json:"s"`
	IsIp  bool     `json:"is_ip"`
	Split c18Split `json:"split"`
}

type c18Step struct {
	Op     string `json:"op"`
	Now    int64  `json:"now"`
	Key    string `json:"key,omitempty"` // remember/resolve: base key the implementation used
	Scope  string `json:"scope,omitempty"`
	HostIsIp bool `json:"host_is_ip,omitempty"`
	Known  bool   `json:"known,omitempty"`       // dnsKnowledge has the base key after the step
	KnownDelta int64 `json:"known_delta,omitempty"` // its expiry minus now
	Lt     string `json:"lt,omitempty"`  // ToLower(TrimSpace(raw))
	Domain string `json:"domain,omitempty"`
	KeyA   string `json:"key_a,omitempty"`
	Key6   string `json:"key_aaaa,omitempty"`
	DstIs4 bool   `json:"dst_is4,omitempty"`
	DstIp  string `json:"dst_ip,omitempty"`
	DstPort uint16 `json:"dst_port,omitempty"`
	DstStr string `json:"dst_str,omitempty"`
	Reserved bool `json:"reserved,omitempty"`
	Target string `json:"target,omitempty"`
	Reroute bool  `json:"reroute,omitempty"`
	DialIp bool   `json:"dial_ip,omitempty"`
	Probes []string `json:"probes,omitempty"` // hosts the resolver was asked for
	TargetSplit c18Split `json:"target_split"`
	Strs   []c18Str `json:"strs,omitempty"`
	RealHit bool  `json:"real_hit,omitempty"` // realDomainSet.TestString(domain) after the step
	NegSet  bool  `json:"neg_set,omitempty"`  // realDomainNegSet has domain after the step
	NegDelta int64 `json:"neg_delta,omitempty"` // its expiry minus now
	Itoa   string `json:"itoa,omitempty"`
	FinalOutbound int `json:"final_outbound"` // dial: index of the group chosen, -1 on error
	Attempts []c18Attempt `json:"attempts,omitempty"` // route_dial: the address handed to the node dialer on EVERY attempt
	Err    string `json:"err,omitempty"`
	Panic  string `json:"panic,omitempty"`
}

type c18Attempt struct {
	Target string   `json:"target"`
	Split  c18Split `json:"split"`
	Strs   []c18Str `json:"strs"`
}

// records every address handed to the proxy node; fails the first failFirst dials with a local network failure
type c18RecDialer struct {
	mu        sync.Mutex
	targets   []string
	failFirst int
	conn      netproxy.Conn
}

func (d *c18RecDialer) DialContext(_ context.Context, _ string, addr string) (netproxy.Conn, error) {
	d.mu.Lock()
	defer d.mu.Unlock()
	d.targets = append(d.targets, addr)
	if len(d.targets) <= d.failFirst {
		return nil, daerrors.ErrNetworkUnreachable
	}
	return d.conn, nil
}

type c18Result struct {
	ReservedSet []int `json:"reserved_set,omitempty"` // mode "__reserved__": every 8-bit index with IsReserved()
	Now0  int64     `json:"now0"`
	Steps []c18Step `json:"steps"`
	Panic string    `json:"panic,omitempty"`
}

func c18Hex(s string) string { return hex.EncodeToString([]byte(s)) }
func c18Unhex(s string) string {
	b, err := hex.DecodeString(s)
	if err != nil {
		panic(err)
	}
	return string(b)
}

func c18SplitOf(s string) c18Split {
	h, p, err := net.SplitHostPort(s)
	if err != nil {
		return c18Split{}
	}
	return c18Split{Ok: true, Host: c18Hex(h), Port: c18Hex(p)}
}

func c18Unbracket(s string) string {
	if strings.HasPrefix(s, "[") && strings.HasSuffix(s, "]") {
		return s[1 : len(s)-1]
	}
	return s
}

// every string the model may ask the oracles about, for a given domain
func c18Derived(domain, lt, target string) []c18Str {
	seen := map[string]bool{}
	var out []c18Str
	add := func(s string) {
		if seen[s] {
			return
		}
		seen[s] = true
		_, err := netip.ParseAddr(s)
		out = append(out, c18Str{S: c18Hex(s), IsIp: err == nil, Split: c18SplitOf(s)})
	}
	for _, base := range []string{domain, lt} {
		add(base)
		u := c18Unbracket(base)
		add(u)
		if h, _, err := net.SplitHostPort(u); err == nil {
			add(h)
			add(c18Unbracket(h))
		}
		if h, _, err := net.SplitHostPort(base); err == nil {
			add(h)
		}
		add(strings.Trim(base, "[]"))
		add(strings.TrimSuffix(base, "."))
	}
	add(target)
	return out
}

// dialer groups for outbound indices 0..5, created once outside the bubbles (no timers or channels of theirs
// are used by chooseProxyDialer)
var c18Groups []*ob.DialerGroup

type c18NoDomains struct{}

func (c18NoDomains) AddSet(int, []string, consts.RoutingDomainKey) {}
func (c18NoDomains) Build() error                                    { return nil }
func (c18NoDomains) MatchDomainBitmap(string) []uint32               { return nil }

func c18MakeGroups() {
	lg := logrus.New()
	lg.SetOutput(io.Discard)
	for i := 0; i < 6; i++ {
		d := newTestEndpointDialer()
		g := ob.NewDialerGroup(
			&componentdialer.GlobalOption{Log: lg, CheckInterval: time.Second},
			fmt.Sprintf("g%d", i),
			[]*componentdialer.Dialer{d},
			[]*componentdialer.Annotation{{}},
			ob.DialerSelectionPolicy{Policy: consts.DialerSelectionPolicy_Fixed, FixedIndex: 0},
			func(bool, *componentdialer.NetworkType, bool) {},
		)
		c18Groups = append(c18Groups, g)
	}
}

var c18Mu sync.Mutex
var c18Answer string
var c18Probes []string

func c18Resolver(ctx context.Context, d netproxy.Dialer, dns netip.AddrPort, host string, network string, race bool) (*netutils.Ip46, error, error) {
	c18Mu.Lock()
	c18Probes = append(c18Probes, c18Hex(host))
	ans := c18Answer
	c18Mu.Unlock()
	switch ans {
	case "found":
		return &netutils.Ip46{Ip4: netip.MustParseAddr("93.184.216.34")}, nil, nil
	case "found6":
		return &netutils.Ip46{Ip6: netip.MustParseAddr("2001:db8::1")}, fmt.Errorf("no A"), nil
	case "norecord":
		return &netutils.Ip46{}, nil, nil
	case "halffail":
		return &netutils.Ip46{}, fmt.Errorf("v4 failed"), nil
	default:
		return &netutils.Ip46{}, fmt.Errorf("v4 failed"), fmt.Errorf("v6 failed")
	}
}

func c18RunInBubble(cs c18Case, res *c18Result) {
	lg := logrus.New()
	lg.SetOutput(io.Discard)
	ctx, cancel := context.WithCancel(context.Background())
	defer cancel()
	cp := &ControlPlane{
		realDomainSet: bloom.NewWithEstimates(cs.BloomN, cs.BloomP),
		log:           lg,
		ctx:           ctx,
		cancel:        cancel,
	}
	for i := 0; i < cs.Resolvers; i++ {
		cp.bootstrapResolvers = append(cp.bootstrapResolvers, netip.MustParseAddrPort(fmt.Sprintf("192.0.2.%d:53", i+1)))
	}
	cp.dialMode = consts.DialMode(cs.Mode)
	cp.outbounds = c18Groups
	cp.soMarkFromDae = 0x100
	// the DNS controller as NewDnsController builds it, minus the janitor/evictor goroutines (their tickers
	// would run on the bubble's clock and evict entries behind the history's back)
	store := newDnsControllerStore()
	store.janitorDone = nil
	store.evictorDone = nil
	ctrl := &DnsController{dnsControllerStore: store, concurrencyLimiter: make(chan struct{}, 64), log: lg, dnsForwarderIdleTTL: dnsForwarderIdleTTL}
	routing, rerr := componentdns.New(&config.Dns{
		Routing: config.DnsRouting{
			Request:  config.DnsRequestRouting{Fallback: "asis"},
			Response: config.DnsResponseRouting{Fallback: "accept"},
		},
	}, &componentdns.NewOption{Logger: lg, UpstreamReadyCallback: func(*componentdns.Upstream) error { return nil }})
	if rerr != nil {
		panic(rerr)
	}
	if err := ctrl.TryUpdateRuntime(&DnsControllerOption{
		Log:                 lg,
		LifecycleContext:    ctx,
		CacheAccessCallback: func(*DnsCache) error { return nil },
		CacheRemoveCallback: func(*DnsCache) error { return nil },
		NewCache: func(fqdn string, answers, ns, extra []dnsmessage.RR, deadline, originalDeadline time.Time) (*DnsCache, error) {
			return &DnsCache{Answer: answers, NS: ns, Extra: extra, Deadline: deadline, OriginalDeadline: originalDeadline}, nil
		},
	}, routing); err != nil {
		panic(err)
	}
	defer func() { _ = ctrl.Close() }()
	cp.dnsController = ctrl
	peek := func(st *c18Step, key string) {
		if v, ok := ctrl.dnsKnowledge.Load(key); ok {
			st.Known = true
			st.KnownDelta = v.(int64) - time.Now().UnixNano()
		}
	}
	res.Now0 = time.Now().UnixNano()
	for _, op := range cs.Ops {
		st := c18Step{Op: op.Op, Now: time.Now().UnixNano()}
		func() {
			defer func() {
				if r := recover(); r != nil {
					st.Panic = fmt.Sprint(r)
				}
			}()
			switch op.Op {
			case "remember":
				key := dnsCacheBaseKey(cp.dnsController.cacheKey(c18Unhex(op.Name), op.Qtype))
				st.Key = c18Hex(key)
				_, perr := netip.ParseAddr(strings.TrimSuffix(c18Unhex(op.Name), "."))
				st.HostIsIp = perr == nil
				cp.dnsController.rememberDnsKnowledge(key, time.Unix(0, time.Now().UnixNano()+op.Delta))
				peek(&st, key)
			case "resolve":
				// what the DNS handler does once the upstream answered a client's question
				qname := c18Unhex(op.Name)
				msg := new(dnsmessage.Msg)
				msg.Response = true
				msg.Question = []dnsmessage.Question{{Name: qname, Qtype: op.Qtype, Qclass: dnsmessage.ClassINET}}
				hdr := dnsmessage.RR_Header{Name: qname, Rrtype: op.Qtype, Class: dnsmessage.ClassINET, Ttl: op.Ttl}
				if op.Qtype == dnsmessage.TypeAAAA {
					msg.Answer = []dnsmessage.RR{&dnsmessage.AAAA{Hdr: hdr, AAAA: net.ParseIP("2001:db8::5")}}
				} else {
					msg.Answer = []dnsmessage.RR{&dnsmessage.A{Hdr: hdr, A: net.ParseIP("203.0.113.10").To4()}}
				}
				q := msg.Question[0]
				baseKey := ctrl.cacheKey(q.Name, q.Qtype)
				req := &udpRequest{realDst: netip.MustParseAddrPort("8.8.8.8:53")}
				respKey := ctrl.responseCacheKey(baseKey, req, consts.DnsRequestOutboundIndex_AsIs, nil)
				st.Scope = c18Hex(strings.TrimPrefix(respKey, baseKey+"|"))
				_, perr := netip.ParseAddr(strings.TrimSuffix(qname, "."))
				st.HostIsIp = perr == nil
				if err := ctrl.NormalizeAndCacheDnsResp_(msg, respKey); err != nil {
					st.Err = err.Error()
				}
				st.Key = c18Hex(dnsCacheBaseKey(respKey))
				peek(&st, dnsCacheBaseKey(respKey))
			case "advance":
				if op.Dt > 0 {
					time.Sleep(time.Duration(op.Dt))
				}
			case "real_add":
				cp.muRealDomainSet.Lock()
				cp.realDomainSet.AddString(c18Unhex(op.Name))
				cp.muRealDomainSet.Unlock()
			case "find_fp":
				// search a never-verified name the verification cache nevertheless reports as verified, then
				// greedily minimise the set of verified names that causes it (fresh filters, same parameters)
				var added []string
				for _, h := range op.Names {
					added = append(added, c18Unhex(h))
				}
				isAdded := map[string]bool{}
				for _, a := range added {
					isAdded[a] = true
				}
				fp := ""
				for i := 0; i < int(op.Delta); i++ {
					name := fmt.Sprintf("never-verified-%d.invalid", i)
					cp.muRealDomainSet.RLock()
					hit := cp.realDomainSet.TestString(name)
					cp.muRealDomainSet.RUnlock()
					if hit && !isAdded[name] {
						fp = name
						break
					}
				}
				if fp != "" {
					st.Domain = c18Hex(fp)
					hits := func(subset []string) bool {
						f := bloom.NewWithEstimates(cs.BloomN, cs.BloomP)
						for _, a := range subset {
							f.AddString(a)
						}
						return f.TestString(fp)
					}
					cur := added
					if hits(cur) {
						for i := 0; i < len(cur); {
							cand := append(append([]string{}, cur[:i]...), cur[i+1:]...)
							if hits(cand) {
								cur = cand
							} else {
								i++
							}
						}
						for _, a := range cur {
							st.Probes = append(st.Probes, c18Hex(a))
						}
					}
				}
			case "neg_set":
				cp.realDomainNegSet.Store(c18Unhex(op.Name), time.Now().UnixNano()+op.Delta)
			case "choose", "dial", "route_dial":
				raw := c18Unhex(op.Raw)
				lt := strings.ToLower(strings.TrimSpace(raw))
				domain := raw
				if op.Normalize {
					domain = sniffing.NormalizeDomain(raw)
				}
				dst := netip.MustParseAddrPort(op.Dst)
				c18Mu.Lock()
				c18Answer = op.Answer
				c18Probes = nil
				c18Mu.Unlock()
				var target string
				var reroute, dialIp bool
				st.FinalOutbound = -1
				if op.Op == "route_dial" {
					clientConn, serverConn := net.Pipe()
					defer func() { _ = clientConn.Close(); _ = serverConn.Close() }()
					rec := &c18RecDialer{failFirst: op.FailFirst, conn: clientConn}
					d := componentdialer.NewDialer(rec, &componentdialer.GlobalOption{Log: lg, CheckInterval: time.Second},
						componentdialer.InstanceOption{DisableCheck: true},
						&componentdialer.Property{Property: D.Property{Name: "node", Address: "proxy.example:443", Protocol: "shadowsocks_2022"}})
					g := ob.NewDialerGroup(&componentdialer.GlobalOption{Log: lg, CheckInterval: time.Second}, "rec",
						[]*componentdialer.Dialer{d}, []*componentdialer.Annotation{{}},
						ob.DialerSelectionPolicy{Policy: consts.DialerSelectionPolicy_Fixed, FixedIndex: 0},
						func(bool, *componentdialer.NetworkType, bool) {})
					outs := append([]*ob.DialerGroup{}, c18Groups...)
					outs[op.Outbound] = g
					cp.outbounds = outs
					defer func() { cp.outbounds = c18Groups }()
					cp.routingMatcher = &RoutingMatcher{
						domainMatcher:   c18NoDomains{},
						compiledMatches: []compiledRoutingMatch{{matchType: consts.MatchType_Fallback, outbound: consts.OutboundIndex(op.RouteTo)}},
					}
					conn, res, err := cp.routeDial(context.Background(), &proxyDialParam{
						Outbound: consts.OutboundIndex(op.Outbound),
						Domain:   domain,
						Src:      netip.MustParseAddrPort("192.0.2.7:40000"),
						Dest:     dst,
						Network:  "tcp",
					})
					if err != nil {
						st.Err = err.Error()
					} else {
						_ = conn.Close()
						target, dialIp = res.DialTarget, res.IsDialIp
						if res.Outbound == g {
							st.FinalOutbound = int(op.Outbound)
						}
					}
					rec.mu.Lock()
					for _, a := range rec.targets {
						st.Attempts = append(st.Attempts, c18Attempt{Target: c18Hex(a), Split: c18SplitOf(a), Strs: c18Derived(domain, lt, a)})
					}
					rec.mu.Unlock()
				} else if op.Op == "dial" {
					cp.routingMatcher = &RoutingMatcher{
						domainMatcher:   c18NoDomains{},
						compiledMatches: []compiledRoutingMatch{{matchType: consts.MatchType_Fallback, outbound: consts.OutboundIndex(op.RouteTo)}},
					}
					res, err := cp.chooseProxyDialer(context.Background(), &proxyDialParam{
						Outbound: consts.OutboundIndex(op.Outbound),
						Domain:   domain,
						Src:      netip.MustParseAddrPort("192.0.2.7:40000"),
						Dest:     dst,
						Network:  op.Network,
					})
					if err != nil {
						st.Err = err.Error()
					} else {
						target, dialIp = res.DialTarget, res.IsDialIp
						for i, g := range c18Groups {
							if g == res.Outbound {
								st.FinalOutbound = i
							}
						}
						if res.SniffedDomain != domain {
							st.Err = "SniffedDomain differs"
						}
					}
				} else {
					target, reroute, dialIp = cp.ChooseDialTarget(consts.OutboundIndex(op.Outbound), dst, domain)
				}
				synctest.Wait() // the asynchronous probe, if any, has finished (or is durably blocked: it never blocks here)
				c18Mu.Lock()
				st.Probes = append([]string{}, c18Probes...)
				c18Mu.Unlock()
				st.Lt = c18Hex(lt)
				st.Domain = c18Hex(domain)
				st.KeyA = c18Hex(cp.dnsController.cacheKey(domain, dnsmessage.TypeA))
				st.Key6 = c18Hex(cp.dnsController.cacheKey(domain, dnsmessage.TypeAAAA))
				st.DstIs4 = dst.Addr().Is4()
				st.DstIp = c18Hex(dst.Addr().String())
				st.DstPort = dst.Port()
				st.DstStr = c18Hex(dst.String())
				st.Reserved = consts.OutboundIndex(op.Outbound).IsReserved()
				st.Target = c18Hex(target)
				st.Reroute = reroute
				st.DialIp = dialIp
				st.TargetSplit = c18SplitOf(target)
				st.Strs = c18Derived(domain, lt, target)
				st.Itoa = c18Hex(fmt.Sprint(int(dst.Port())))
				cp.muRealDomainSet.RLock()
				st.RealHit = cp.realDomainSet.TestString(domain)
				cp.muRealDomainSet.RUnlock()
				if v, ok := cp.realDomainNegSet.Load(domain); ok {
					st.NegSet = true
					st.NegDelta = v.(int64) - time.Now().UnixNano()
				}
			default:
				panic("bad op " + op.Op)
			}
		}()
		res.Steps = append(res.Steps, st)
	}
	cancel()
	synctest.Wait()
}

func TestVerifC18(t *testing.T) {
	c18MakeGroups()
	old := resolveIp46ForRealDomainProbe
	resolveIp46ForRealDomainProbe = c18Resolver
	defer func() { resolveIp46ForRealDomainProbe = old }()
	verifEachLine(t, func(line []byte) any {
		var cs c18Case
		if err := json.Unmarshal(line, &cs); err != nil {
			t.Fatalf("bad case: %v", err)
		}
		var res c18Result
		if cs.Mode == "__reserved__" {
			// exhaustive: the real predicate on every value of the uint8 type
			for i := 0; i < 256; i++ {
				if consts.OutboundIndex(i).IsReserved() {
					res.ReservedSet = append(res.ReservedSet, i)
				}
			}
			return res
		}
		synctest.Test(t, func(t *testing.T) {
			defer func() {
				if r := recover(); r != nil {
					res.Panic = fmt.Sprint(r)
				}
			}()
			c18RunInBubble(cs, &res)
		})
		return res
	})
}
