//go:build verif

package control

// C09 "tcp" family: the real transparent DNS-over-TCP fast path (ControlPlane.handleTCPDnsFastPath) over
// net.Pipe with the optimistic cache on: the first query of the connection meets a seeded (stale or fresh)
// cache entry; a stale hit spawns backgroundRefresh, which the harness parks at its start (verifYield
// inserted by the check's build-time overlay, before dnsMessage.Copy()) and releases at the step the
// history names - before or after the next queries of the connection have been read.

import (
	"bufio"
	"context"
	"encoding/binary"
	"fmt"
	"io"
	"net"
	"net/netip"
	"strings"
	"sync"
	"time"

	"github.com/daeuniverse/dae/common/consts"
	componentdns "github.com/daeuniverse/dae/component/dns"
	"github.com/daeuniverse/dae/config"
	dnsmessage "github.com/miekg/dns"
	"github.com/sirupsen/logrus"
)

type c09TcpCase struct {
	Queries    []c09Client    `json:"queries"`
	Stale      bool           `json:"stale"`
	SeedSerial int            `json:"seed_serial"`
	Serials    map[string]int `json:"serials"` // lower-case name -> serial of the upstream's answer
	Steps      []string       `json:"steps"`   // send | refresh
	Later      c09Client      `json:"later"`
}

type c09TcpResult struct {
	Kind      string   `json:"kind"`
	Effective []string `json:"effective"` // send | refresh, as executed (incl. the final drain)
	Replies   []*c09Msg `json:"replies"`
	Later     *c09Msg  `json:"later"`
	CacheA    *c09Msg  `json:"cache_a"` // the packed response stored under the first query's key
	Spawned   bool     `json:"refresh_spawned"`
	Calls     int      `json:"calls"`
	Stuck     bool     `json:"stuck,omitempty"`
	Dump      string   `json:"dump,omitempty"`
	ElapsedMs int64    `json:"elapsed_ms"`
	Panic     string   `json:"panic,omitempty"`
}

func c09TcpExchange(conn net.Conn, q *dnsmessage.Msg) (*dnsmessage.Msg, error) {
	b, err := q.Pack()
	if err != nil {
		return nil, err
	}
	f := make([]byte, 2+len(b))
	binary.BigEndian.PutUint16(f, uint16(len(b)))
	copy(f[2:], b)
	_ = conn.SetDeadline(time.Now().Add(c09D(60 * time.Second)))
	if _, err := conn.Write(f); err != nil {
		return nil, err
	}
	var hdr [2]byte
	if _, err := io.ReadFull(conn, hdr[:]); err != nil {
		return nil, err
	}
	buf := make([]byte, binary.BigEndian.Uint16(hdr[:]))
	if _, err := io.ReadFull(conn, buf); err != nil {
		return nil, err
	}
	m := new(dnsmessage.Msg)
	if err := m.Unpack(buf); err != nil {
		return nil, err
	}
	return m, nil
}

func c09RunTcp(cs c09TcpCase) (res c09TcpResult) {
	res.Kind = "tcp"
	t0 := time.Now()
	defer func() { res.ElapsedMs = time.Since(t0).Milliseconds() }()
	defer func() {
		if r := recover(); r != nil {
			res.Panic = fmt.Sprint(r)
		}
	}()
	stuck := func() {
		res.Stuck = true
		if res.Dump == "" {
			res.Dump = c09Dump()
		}
	}
	log := logrus.New()
	log.SetOutput(io.Discard)
	routing, err := componentdns.New(&config.Dns{
		Upstream: []config.KeyableString{"u:udp://198.51.100.53:53"},
		Routing: config.DnsRouting{
			Request:  config.DnsRequestRouting{Fallback: "u"},
			Response: config.DnsResponseRouting{Fallback: "accept"},
		},
	}, &componentdns.NewOption{Logger: log, UpstreamReadyCallback: func(*componentdns.Upstream) error { return nil }})
	if err != nil {
		panic(err)
	}
	var mu sync.Mutex
	original := dnsForwarderFactory
	defer func() { dnsForwarderFactory = original }()
	dnsForwarderFactory = func(upstream *componentdns.Upstream, dialArg dialArgument, _ *logrus.Logger) (DnsForwarder, error) {
		return &stubDnsForwarder{forward: func(ctx context.Context, data []byte) (*dnsmessage.Msg, error) {
			var q dnsmessage.Msg
			if err := q.Unpack(data); err != nil || len(q.Question) == 0 {
				return nil, fmt.Errorf("c09: bad query")
			}
			mu.Lock()
			res.Calls++
			mu.Unlock()
			low := strings.ToLower(q.Question[0].Name)
			return c09Build(c09Msg{ID: int(q.Id), QName: q.Question[0].Name, QType: q.Question[0].Qtype,
				Ans: []c09RR{{Name: low, Type: q.Question[0].Qtype, Serial: cs.Serials[low]}}}), nil
		}}, nil
	}
	ctrl, err := NewDnsController(routing, &DnsControllerOption{
		Log:                 log,
		LifecycleContext:    context.Background(),
		CacheAccessCallback: func(*DnsCache) error { return nil },
		CacheRemoveCallback: func(*DnsCache) error { return nil },
		NewCache: func(fqdn string, answers, ns, extra []dnsmessage.RR, deadline, originalDeadline time.Time) (*DnsCache, error) {
			return &DnsCache{Answer: answers, NS: ns, Extra: extra, Deadline: deadline, OriginalDeadline: originalDeadline}, nil
		},
		BestDialerChooser: func(ctx context.Context, req *udpRequest, upstream *componentdns.Upstream) (*dialArgument, error) {
			return &dialArgument{l4proto: consts.L4ProtoStr_UDP, ipversion: consts.IpVersionStr_4, bestTarget: netip.MustParseAddrPort("198.51.100.53:53")}, nil
		},
		TimeoutExceedCallback: func(*dialArgument, error) {},
		OptimisticCache:       true,
		OptimisticCacheTtl:    3600,
	})
	if err != nil {
		panic(err)
	}
	defer ctrl.Close()
	plane := &ControlPlane{log: log, controlPlaneDNSRuntime: controlPlaneDNSRuntime{dnsController: ctrl}}
	src := netip.MustParseAddrPort("127.0.0.1:12345")
	dst := netip.MustParseAddrPort("192.0.2.53:53")

	// the entry the first query meets
	first := cs.Queries[0]
	lowA := strings.ToLower(first.Name)
	idx, up, err := routing.RequestSelect(context.Background(), lowA, first.QType)
	if err != nil {
		panic(err)
	}
	keyA := ctrl.responseCacheKey(ctrl.cacheKey(lowA, first.QType), &udpRequest{realSrc: src, realDst: dst}, idx, up)
	seed := []dnsmessage.RR{c09MakeRR(c09RR{Name: lowA, Type: first.QType, Serial: cs.SeedSerial})}
	if err := ctrl.UpdateDnsCacheTtlWithKey(keyA, lowA, first.QType, seed, nil, nil, 3600); err != nil {
		panic(err)
	}
	if cs.Stale {
		v, _ := ctrl.dnsCache.Load(keyA)
		e := v.(*DnsCache)
		past := time.Now().Add(-2 * time.Second)
		e.Deadline, e.OriginalDeadline = past, past
		e.deadlineNano.Store(past.UnixNano())
	}

	parked := make(chan struct{}, 8)
	release := make(chan struct{})
	done := make(chan struct{}, 8)
	VerifYield = func(point string) {
		switch point {
		case "refresh.start":
			parked <- struct{}{}
			<-release
		case "refresh.end":
			done <- struct{}{}
		}
	}
	defer func() { VerifYield = nil }()
	released := false
	doRefresh := func() {
		if released || !cs.Stale {
			return
		}
		select {
		case <-parked:
		case <-time.After(c09D(15 * time.Second)):
			stuck()
			return
		}
		res.Spawned = true
		released = true
		close(release)
		select {
		case <-done:
		case <-time.After(c09D(60 * time.Second)):
			stuck()
		}
		res.Effective = append(res.Effective, "refresh")
	}

	client, server := net.Pipe()
	served := make(chan struct{})
	go func() {
		defer close(served)
		_, _ = plane.handleTCPDnsFastPath(context.Background(), server, bufio.NewReader(server), src, dst, &bpfRoutingResult{})
	}()
	next := 0
	for _, st := range cs.Steps {
		switch st {
		case "send":
			if next >= len(cs.Queries) {
				continue
			}
			q := cs.Queries[next]
			next++
			m, err := c09TcpExchange(client, c09Query(q.ID, q.Name, q.QType))
			if err != nil {
				stuck()
				res.Replies = append(res.Replies, nil)
			} else {
				res.Replies = append(res.Replies, c09Decode(m))
			}
			res.Effective = append(res.Effective, "send")
		case "refresh":
			doRefresh()
		}
	}
	for next < len(cs.Queries) {
		q := cs.Queries[next]
		next++
		m, err := c09TcpExchange(client, c09Query(q.ID, q.Name, q.QType))
		if err != nil {
			stuck()
			res.Replies = append(res.Replies, nil)
		} else {
			res.Replies = append(res.Replies, c09Decode(m))
		}
		res.Effective = append(res.Effective, "send")
	}
	doRefresh()
	if !released {
		close(release) // nothing was (or will be) parked
	}
	_ = client.Close()
	select {
	case <-served:
	case <-time.After(c09D(60 * time.Second)):
		stuck()
	}
	_ = server.Close()

	// another client asks afterwards, on its own connection
	client2, server2 := net.Pipe()
	served2 := make(chan struct{})
	go func() {
		defer close(served2)
		_, _ = plane.handleTCPDnsFastPath(context.Background(), server2, bufio.NewReader(server2), netip.MustParseAddrPort("127.0.0.1:23456"), dst, &bpfRoutingResult{})
	}()
	if m, err := c09TcpExchange(client2, c09Query(cs.Later.ID, cs.Later.Name, cs.Later.QType)); err == nil {
		res.Later = c09Decode(m)
	} else {
		stuck()
	}
	_ = client2.Close()
	select {
	case <-served2:
	case <-time.After(c09D(60 * time.Second)):
		stuck()
	}
	_ = server2.Close()

	if v, ok := ctrl.dnsCache.Load(keyA); ok {
		var m dnsmessage.Msg
		if err := m.Unpack(v.(*DnsCache).GetPackedResponse()); err == nil {
			res.CacheA = c09Decode(&m)
		}
	}
	return res
}
