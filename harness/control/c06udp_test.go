//go:build verif

package control

// C06 (UDP sniff session) harness.  The session block of handlePkt (control/udp.go, from
// `DefaultPacketSnifferSessionMgr.GetOrCreate(key, nil)` to `afterSniffing:`) cannot be reached
// without a full ControlPlane, so tools/c06.py LIFTS that block textually from the working tree on
// every run into c06udpLiftedStep (file c06udp_lifted_test.go in the scratch directory, injected
// by overlay): `goto afterSniffing` becomes `return "bypass"`, the outer `return nil` becomes
// `return "held"`, falling out of the block is "forward".  Everything it calls (pool, sniffer,
// failed-DCID cache, janitor) is the real code.

import (
	"encoding/hex"
	"encoding/json"
	stderrors "errors"
	"net/netip"
	"os"
	"sync/atomic"
	"testing"
	"time"

	"github.com/daeuniverse/dae/component/sniffing"
	"github.com/sirupsen/logrus"
)

type c06udpStepIn struct {
	T      int64  `json:"t"` // ms since the start of the case (logical `now`)
	D      string `json:"d"`
	Expire bool   `json:"expire_before"` // the session TTL has long passed before this datagram: let the janitor collect it
}

type c06udpCase struct {
	Steps       []c06udpStepIn `json:"steps"`
	FinalExpire bool           `json:"final_expire"`
}

type c06udpStepOut struct {
	Verdict  string   `json:"verdict"` // held | forward | bypass | failed
	Domain   string   `json:"domain"`
	Payloads []string `json:"payloads"`
	ErrClass string   `json:"errclass"` // nil | notapplicable | other
	NeedMore bool     `json:"needmore"`
	Held     []string `json:"held"` // sniffer.Data()[1:] after the step
	Session  bool     `json:"session"`
	SameKey  bool     `json:"same_key"`
	Panic    string   `json:"panic,omitempty"`
}

type c06udpResult struct {
	Steps       []c06udpStepOut `json:"steps"`
	FinalHeld   []string        `json:"final_held"`   // withheld when the flight is over
	FinalGone   bool            `json:"final_gone"`   // after the TTL the session was collected
	ExpireWaitMs float64        `json:"expire_wait_ms"`
	// Slow: real time interfered (a step was delayed by more than a second while the session's real TTL
	// and the failed-DCID cache run on the wall clock, or the janitor did not collect in time): retry
	Slow bool `json:"slow,omitempty"`
}

func c06udpScale() time.Duration {
	switch os.Getenv("VERIF_TIME_SCALE") {
	case "4":
		return 4
	case "16":
		return 16
	}
	return 1
}

var c06udpSeq atomic.Uint32
var c06udpLogger = func() *logrus.Logger { l := logrus.New(); l.SetLevel(logrus.PanicLevel); return l }()

func c06udpHeld(key PacketSnifferKey) ([]string, bool) {
	ps := DefaultPacketSnifferSessionMgr.Get(key)
	if ps == nil {
		return []string{}, false
	}
	ps.Mu.Lock()
	defer ps.Mu.Unlock()
	out := []string{}
	data := ps.Data()
	for i := 1; i < len(data); i++ {
		out = append(out, hex.EncodeToString(data[i]))
	}
	return out, true
}

// let the REAL janitor collect the session: mark it expired and wait for a tick
func c06udpExpire(key PacketSnifferKey) (gone bool, waited float64) {
	ps := DefaultPacketSnifferSessionMgr.Get(key)
	if ps == nil {
		return true, 0
	}
	ps.expiresAtNano.Store(1)
	t0 := time.Now()
	// generous: under load the janitor's 250 ms ticker may be served late
	for time.Since(t0) < 60*time.Second*c06udpScale() {
		if DefaultPacketSnifferSessionMgr.Get(key) == nil {
			return true, float64(time.Since(t0).Microseconds()) / 1000
		}
		time.Sleep(10 * time.Millisecond)
	}
	return false, float64(time.Since(t0).Microseconds()) / 1000
}

func TestVerifC06Udp(t *testing.T) {
	SetFailedQuicDcidCache(newFailedQuicDcidCache(0))
	verifEachLine(t, func(line []byte) any {
		var cs c06udpCase
		if err := json.Unmarshal(line, &cs); err != nil {
			return c06udpResult{}
		}
		n := c06udpSeq.Add(1)
		src := netip.AddrPortFrom(netip.AddrFrom4([4]byte{10, byte(n >> 16), byte(n >> 8), byte(n)}), 40000)
		dst := netip.MustParseAddrPort("93.184.216.34:443")
		base := time.Now()
		var res c06udpResult
		var firstKey PacketSnifferKey
		lastEnd := time.Now()
		for i, st := range cs.Steps {
			data, _ := hex.DecodeString(st.D)
			key := NewPacketSnifferKey(src, dst, data)
			if i == 0 {
				firstKey = key
			}
			out := c06udpStepOut{SameKey: key == firstKey, Payloads: []string{}}
			if st.Expire {
				g, w := c06udpExpire(firstKey)
				res.ExpireWaitMs += w
				if !g || w > 3000 {
					res.Slow = true // logical time must stay ahead of the wall clock
				}
				lastEnd = time.Now() // the session is gone: its real TTL no longer matters
			}
			stepStart := time.Now()
			if i > 0 && stepStart.Sub(lastEnd) > time.Second {
				res.Slow = true // the wall clock ran away between two datagrams (the session's real TTL is 5 s)
			}
			now := base.Add(time.Duration(st.T) * time.Millisecond)
			func() {
				defer func() {
					if r := recover(); r != nil {
						out.Panic = "panic"
					}
				}()
				verdict, domain, replay, err, needMore := c06udpLiftedStep(key, now, data, src, dst)
				out.Verdict, out.Domain, out.NeedMore = verdict, hex.EncodeToString([]byte(domain)), needMore
				switch {
				case err == nil:
					out.ErrClass = "nil"
				case stderrors.Is(err, sniffing.ErrNotApplicable):
					out.ErrClass = "notapplicable"
				default:
					out.ErrClass = "other"
				}
				if verdict != "held" {
					for _, p := range replay {
						out.Payloads = append(out.Payloads, hex.EncodeToString(p))
					}
					out.Payloads = append(out.Payloads, hex.EncodeToString(data))
				}
			}()
			out.Held, out.Session = c06udpHeld(firstKey)
			res.Steps = append(res.Steps, out)
			if time.Since(stepStart) > time.Second {
				res.Slow = true
			}
			lastEnd = time.Now()
		}
		if os.Getenv("VERIF_C06_INJECT_SLOW") != "" && os.Getenv("VERIF_TIME_SCALE") == "" && n%7 == 0 {
			res.Slow = true // self-test of the orchestrator's retry path only
		}
		res.FinalHeld, _ = c06udpHeld(firstKey)
		if cs.FinalExpire {
			g, w := c06udpExpire(firstKey)
			res.FinalGone = g
			res.ExpireWaitMs += w
			if !g {
				res.Slow = true
			}
		} else if ps := DefaultPacketSnifferSessionMgr.Get(firstKey); ps != nil {
			_ = DefaultPacketSnifferSessionMgr.Remove(firstKey, ps)
		}
		return res
	})
}

// ---------------------------------------------------------------- session key / fingerprint parsing

type c06keyCase struct {
	D        string `json:"d"`
	Prefixes bool   `json:"prefixes"` // also every truncation of the datagram
}

type c06keyResult struct {
	Ns    []int   `json:"ns"`
	Codes []int64 `json:"codes"`
}

func c06keyZero(b []byte) bool {
	for _, x := range b {
		if x != 0 {
			return false
		}
	}
	return true
}

// one packed observation of NewPacketSnifferKey / parseQuicInitialFingerprint / ObserveQuicInitial on `data`
// (a slice whose capacity is its length, so that any read past the datagram panics):
//   k + 4*f + 16*klen + 512*fdl + 16384*fsl + (obsPanic << 20)
// k, f: 0 nothing, 1 present and every field equals the bytes of the datagram at its position (unused
// array bytes zero, version = big-endian data[1:5]), 2 present but some field differs, 3 panic
func c06keyCode(data []byte) int64 {
	src := netip.MustParseAddrPort("10.1.2.3:40000")
	dst := netip.MustParseAddrPort("93.184.216.34:443")
	var k, f, klen, fdl, fsl, obs int64
	func() {
		defer func() {
			if r := recover(); r != nil {
				k = 3
			}
		}()
		key := NewPacketSnifferKey(src, dst, data)
		if key.DCIDLen == 0 {
			if !c06keyZero(key.DCID[:]) {
				k = 2
			}
			return
		}
		klen = int64(key.DCIDLen)
		n := int(key.DCIDLen)
		if n <= 20 && len(data) >= 6+n && string(key.DCID[:n]) == string(data[6:6+n]) && c06keyZero(key.DCID[n:]) && key.LAddr == src && key.RAddr == dst {
			k = 1
		} else {
			k = 2
		}
	}()
	func() {
		defer func() {
			if r := recover(); r != nil {
				f = 3
			}
		}()
		sig, ok := parseQuicInitialFingerprint(data)
		if !ok {
			if sig != (quicInitialFingerprint{}) {
				f = 2
			}
			return
		}
		fdl, fsl = int64(sig.dstLen), int64(sig.srcLen)
		d, s := int(sig.dstLen), int(sig.srcLen)
		if d <= 20 && s <= 20 && len(data) >= 7+d+s &&
			sig.version == uint32(data[1])<<24|uint32(data[2])<<16|uint32(data[3])<<8|uint32(data[4]) &&
			string(sig.dstConn[:d]) == string(data[6:6+d]) && c06keyZero(sig.dstConn[d:]) &&
			string(sig.srcConn[:s]) == string(data[7+d:7+d+s]) && c06keyZero(sig.srcConn[s:]) {
			f = 1
		} else {
			f = 2
		}
	}()
	func() {
		defer func() {
			if r := recover(); r != nil {
				obs = 1
			}
		}()
		ps := &PacketSniffer{}
		_, _ = ps.ObserveQuicInitial(data)
	}()
	return k + 4*f + 16*klen + 512*fdl + 16384*fsl + obs<<20
}

func TestVerifC06Key(t *testing.T) {
	verifEachLine(t, func(line []byte) any {
		var cs c06keyCase
		if err := json.Unmarshal(line, &cs); err != nil {
			return c06keyResult{}
		}
		full, _ := hex.DecodeString(cs.D)
		var res c06keyResult
		lo := len(full)
		if cs.Prefixes {
			lo = 0
		}
		for n := lo; n <= len(full); n++ {
			res.Ns = append(res.Ns, n)
			res.Codes = append(res.Codes, c06keyCode(full[:n:n]))
		}
		return res
	})
}
