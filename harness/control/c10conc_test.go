//go:build verif

package control

// C10, third stream: CONCURRENT syncOwner calls.  Two goroutines call the real
// controlPlaneCore.BatchUpdateDomainRouting / BatchRemoveDomainRouting (-> domainRoutingTracker.syncOwner)
// for two owners.  VerifDomainRoutingObserver is called by syncOwner at its kernel-write step and is the
// scheduling point: goroutine A is parked there, then goroutine B is started.  What is observed while A is
// parked (all event-driven, no timing assumption decides an outcome):
//   - lock_held_at_write: tracker.mu.TryLock() fails while A is parked at its write step;
//   - b_state: "completed" (B returned while A was parked: a positive event), or "blocked" (B's goroutine is
//     seen in runtime.Stack waiting in sync.Mutex.Lock and B's observer was not called), or "unknown"
//     (neither within the patience; reported as an error, never as a pass);
// then A is released and both must return.  The kernel shadow map is updated when an observer call
// RETURNS, i.e. at the moment the batch would be written.

import (
	"encoding/json"
	"fmt"
	"net/netip"
	"runtime"
	"sort"
	"strings"
	"sync"
	"testing"
	"time"

	"github.com/daeuniverse/dae/common"
)

type c10ConcCase struct {
	Pre  []c10Op `json:"pre"`  // sequential calls before
	A    c10Op   `json:"a"`    // the call parked at its write step
	B    c10Op   `json:"b"`    // the call started while A is parked
	Post []c10Op `json:"post"` // sequential calls afterwards (re-syncs, removals)
}

type c10ConcResult struct {
	Keys            map[string]string `json:"keys"`
	LockHeldAtWrite bool              `json:"lock_held_at_write"`
	BState          string            `json:"b_state"`
	BObservedParked bool              `json:"b_observed_while_parked"`
	BStack          string            `json:"b_stack,omitempty"`
	Order           []string          `json:"order"`       // observer calls in the order they returned (owner keys)
	ShadowConc      [][2]string       `json:"shadow_conc"` // kernel shadow after A and B returned
	Shadow          [][2]string       `json:"shadow"`      // ... after the post calls
	Index           map[string]string `json:"index"`       // tracker.ips at the end: key -> merged
	Err             string            `json:"err,omitempty"`
	Panic           string            `json:"panic,omitempty"`
}

func c10ConcCache(op c10Op, keys map[string]string) *DnsCache {
	cache := &DnsCache{RouteOwnerKey: op.Owner}
	cache.DomainBitmap = c10BitmapWords(op.Bitmap)
	for _, s := range op.IPs {
		ip := netip.MustParseAddr(s)
		ip6 := ip.As16()
		keys[s] = c10KeyHex(common.Ipv6ByteSliceToUint32Array(ip6[:]))
		cache.Answer = append(cache.Answer, c10RR(ip))
	}
	return cache
}

//go:noinline
func c10ConcRunB(core *controlPlaneCore, op c10Op, cache *DnsCache) error {
	// a named frame, so that this goroutine can be found in runtime.Stack
	if op.Remove {
		return core.BatchRemoveDomainRouting(cache)
	}
	return core.BatchUpdateDomainRouting(cache)
}

// c10ConcFindB returns the header line + frames of the goroutine that runs c10ConcRunB.
func c10ConcFindB() string {
	buf := make([]byte, 1<<20)
	n := runtime.Stack(buf, true)
	for _, g := range strings.Split(string(buf[:n]), "\n\n") {
		if strings.Contains(g, "c10ConcRunB") {
			return g
		}
	}
	return ""
}

func c10ConcRun(cs c10ConcCase) (res c10ConcResult) {
	defer func() {
		if r := recover(); r != nil {
			res.Panic = fmt.Sprint(r)
		}
	}()
	res.Keys = map[string]string{}
	res.Order = []string{}
	core := &controlPlaneCore{domainRouting: newDomainRoutingTracker()}
	core.bpf.Store(&bpfObjects{})
	tracker := core.domainRouting

	var smu sync.Mutex
	shadow := map[[4]uint32]bpfDomainRouting{}
	parkA := false
	aAtWrite := make(chan struct{})
	release := make(chan struct{})
	bObserved := make(chan struct{}, 16)
	var parkOnce sync.Once
	VerifDomainRoutingObserver = func(owner string, ku [][4]uint32, vu []bpfDomainRouting, kd [][4]uint32) {
		if parkA && owner == cs.A.Owner {
			parkOnce.Do(func() {
				close(aAtWrite)
				<-release
			})
		} else if parkA && owner == cs.B.Owner {
			select {
			case bObserved <- struct{}{}:
			default:
			}
		}
		smu.Lock()
		for i := range ku {
			shadow[ku[i]] = vu[i]
		}
		for _, k := range kd {
			delete(shadow, k)
		}
		res.Order = append(res.Order, owner)
		smu.Unlock()
	}
	defer func() { VerifDomainRoutingObserver = nil }()
	call := func(op c10Op) error {
		cache := c10ConcCache(op, res.Keys)
		if op.Remove {
			return core.BatchRemoveDomainRouting(cache)
		}
		return core.BatchUpdateDomainRouting(cache)
	}
	dump := func() [][2]string {
		smu.Lock()
		defer smu.Unlock()
		out := [][2]string{}
		for k, v := range shadow {
			out = append(out, [2]string{c10KeyHex(k), c10BitmapHex(v)})
		}
		sort.Slice(out, func(i, j int) bool { return out[i][0] < out[j][0] })
		return out
	}
	for _, op := range cs.Pre {
		if err := call(op); err != nil {
			res.Err = "pre: " + err.Error()
			return res
		}
	}

	// ---- the concurrent pair ----
	const patience = 20 * time.Second // only ever waited out when something is broken
	parkA = true
	cacheA := c10ConcCache(cs.A, res.Keys)
	cacheB := c10ConcCache(cs.B, res.Keys)
	aDone := make(chan error, 1)
	bDone := make(chan error, 1)
	released := false
	doRelease := func() {
		if !released {
			released = true
			close(release)
		}
	}
	defer doRelease()
	go func() {
		if cs.A.Remove {
			aDone <- core.BatchRemoveDomainRouting(cacheA)
		} else {
			aDone <- core.BatchUpdateDomainRouting(cacheA)
		}
	}()
	select {
	case <-aAtWrite:
	case err := <-aDone:
		res.Err = fmt.Sprintf("A returned without reaching the write step (err=%v)", err)
		return res
	case <-time.After(patience):
		res.Err = "A did not reach the write step"
		return res
	}
	// A is parked inside syncOwner at the observe/write step.
	if tracker.mu.TryLock() {
		tracker.mu.Unlock()
		res.LockHeldAtWrite = false
	} else {
		res.LockHeldAtWrite = true
	}
	go func() { bDone <- c10ConcRunB(core, cs.B, cacheB) }()
	var bErr error
	bReturned := false
	res.BState = "unknown"
	deadline := time.Now().Add(patience)
	for res.BState == "unknown" && time.Now().Before(deadline) {
		select {
		case bErr = <-bDone:
			bReturned = true
			res.BState = "completed"
		case <-bObserved:
			res.BObservedParked = true // B reached its own write step while A is parked
		default:
			if g := c10ConcFindB(); g != "" {
				head := g
				if i := strings.IndexByte(g, '\n'); i >= 0 {
					head = g[:i]
				}
				// wait reason of the goroutine that runs c10ConcRunB
				if strings.Contains(head, "sync.Mutex.Lock") || strings.Contains(head, "semacquire") {
					res.BState = "blocked"
					res.BStack = head
					break
				}
			}
			time.Sleep(50 * time.Microsecond)
		}
	}
	if res.BState == "blocked" {
		// second signal: B's observer has not been called
		select {
		case <-bObserved:
			res.BObservedParked = true
		default:
		}
	}
	doRelease()
	select {
	case err := <-aDone:
		if err != nil {
			res.Err = "A: " + err.Error()
		}
	case <-time.After(patience):
		res.Err = "A did not return after release"
		return res
	}
	if !bReturned {
		select {
		case bErr = <-bDone:
		case <-time.After(patience):
			res.Err = "B did not return after A was released"
			return res
		}
	}
	if bErr != nil {
		res.Err = "B: " + bErr.Error()
	}
	parkA = false
	res.ShadowConc = dump()
	for _, op := range cs.Post {
		if err := call(op); err != nil {
			res.Err = "post: " + err.Error()
			return res
		}
	}
	res.Shadow = dump()
	res.Index = map[string]string{}
	tracker.mu.Lock()
	for k, st := range tracker.ips {
		res.Index[c10KeyHex(k)] = c10BitmapHex(st.merged)
	}
	tracker.mu.Unlock()
	return res
}

func TestVerifC10Conc(t *testing.T) {
	verifEachLine(t, func(line []byte) any {
		var cs c10ConcCase
		if err := json.Unmarshal(line, &cs); err != nil {
			t.Fatalf("bad case: %v", err)
		}
		return c10ConcRun(cs)
	})
}
