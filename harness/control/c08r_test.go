//go:build verif

package control

// C08 — the stale-while-revalidate refresh slot at atomic granularity.
//
// k real lookups (LookupDnsRespCache_) of ONE stale entry and completions of background refreshes
// (backgroundRefresh's deferred block, reached with the Reject index) run as goroutines under a
// deterministic scheduler.  The build-time overlay of tools/c08.py puts verifYield("c08.rf.*") in front
// of every atomic operation on DnsCache.refreshing; a thread parks there, and one scheduler decision
// lets one thread perform exactly one atomic operation (it runs to its next yield or returns).
// After every decision the harness records the flag, where the thread is, and what it returned.
// No verdict depends on a deadline: every wait is for an event; a wait that does run out marks the case
// as stuck (goroutine dump attached) and the driver repeats it with the deadlines scaled x4 and x16.

import (
	"encoding/json"
	"fmt"
	"os"
	"runtime"
	"strconv"
	"strings"
	"sync"
	"sync/atomic"
	"testing"
	"time"

	dnsmessage "github.com/miekg/dns"
)

type c08rCase struct {
	Threads  []string `json:"threads"` // "L" lookup | "C" completion | "T:f" "T:0" "T:3" lookup + the refresh it starts (fails / stores a TTL-0 answer / stores a TTL-300 answer)
	Flag0    bool     `json:"flag0"`   // a refresh was claimed (by a real sequential lookup) before the threads start
	Schedule []int    `json:"schedule"`
}

type c08rStep struct {
	T      int    `json:"t"`
	Before string `json:"before"` // where the thread was parked
	At     string `json:"at"`     // where it parked next ("done" when it returned)
	Flag   bool   `json:"flag"`
	Done   bool   `json:"done"`
	Served bool   `json:"served"`
	Res    *bool  `json:"res,omitempty"` // needRefresh of a lookup that returned
	// life-cycle cases: entries in creation order, which one the map holds, refreshes whose upstream work is running
	Cur      int    `json:"cur"`
	Flags    []bool `json:"flags"`
	Inflight int    `json:"inflight"`
}

type c08rResult struct {
	Init      []string   `json:"init"` // park point of every thread after positioning
	Flag0     bool       `json:"flag0"`
	Steps     []c08rStep `json:"steps"`
	Effective []int      `json:"effective"`
	Stuck     bool       `json:"stuck,omitempty"`
	Dump      string     `json:"dump,omitempty"`
	Panic     string     `json:"panic,omitempty"`
	Err       string     `json:"err,omitempty"`
}

func c08rGoid() int64 {
	var buf [64]byte
	n := runtime.Stack(buf[:], false)
	f := strings.Fields(string(buf[:n]))
	if len(f) < 2 {
		return -1
	}
	id, _ := strconv.ParseInt(f[1], 10, 64)
	return id
}

func c08rD(d time.Duration) time.Duration {
	if v, err := strconv.Atoi(os.Getenv("VERIF_WAIT_SCALE")); err == nil && v > 1 {
		return d * time.Duration(v)
	}
	return d
}

func c08rDump() string {
	buf := make([]byte, 1<<20)
	n := runtime.Stack(buf, true)
	if n > 20000 {
		n = 20000
	}
	return string(buf[:n])
}

type c08rThread struct {
	release  chan struct{}
	parked   chan string
	done     chan struct{}
	finished bool
	at       string
	served   bool
	refresh  bool
	lookup   bool
	fine     bool // also parks at the map operations (c08.mp.*): life-cycle threads
}

type c08rSched struct {
	mu      sync.Mutex
	threads map[int64]*c08rThread
}

func (s *c08rSched) yield(point string) {
	if point != "start" && !strings.HasPrefix(point, "c08.rf.") && !strings.HasPrefix(point, "c08.mp.") {
		return
	}
	s.mu.Lock()
	th := s.threads[c08rGoid()]
	s.mu.Unlock()
	if th == nil || (strings.HasPrefix(point, "c08.mp.") && !th.fine) {
		return
	}
	th.parked <- point
	<-th.release
}

func (s *c08rSched) spawn(lookup bool, fine bool, body func(th *c08rThread)) (*c08rThread, bool) {
	th := &c08rThread{release: make(chan struct{}), parked: make(chan string), done: make(chan struct{}), lookup: lookup, fine: fine}
	go func() {
		id := c08rGoid()
		s.mu.Lock()
		s.threads[id] = th
		s.mu.Unlock()
		s.yield("start")
		body(th)
		s.mu.Lock()
		delete(s.threads, id)
		s.mu.Unlock()
		close(th.done)
	}()
	select {
	case th.at = <-th.parked:
		return th, true
	case <-time.After(c08rD(10 * time.Second)):
		return th, false
	}
}

// one scheduler decision; false = the thread neither parked nor returned before the (scaled) deadline
func (s *c08rSched) step(th *c08rThread) bool {
	if th.finished {
		return true
	}
	select {
	case th.release <- struct{}{}:
	case <-time.After(c08rD(10 * time.Second)):
		return false
	}
	select {
	case p := <-th.parked:
		th.at = p
	case <-th.done:
		th.finished = true
		th.at = "done"
	case <-time.After(c08rD(10 * time.Second)):
		return false
	}
	return true
}

func c08rRun(cs c08rCase) (res c08rResult) {
	defer func() {
		if r := recover(); r != nil {
			res.Panic = fmt.Sprint(r)
		}
	}()
	ctl, err := NewDnsController(nil, c08Option(c08Cfg{Opt: true, Ttl: 60, Max: 0}))
	if err != nil {
		res.Err = err.Error()
		return
	}
	w := &c08World{ctl: ctl}
	defer func() { _ = w.ctl.Close() }()
	op := &c08Op{Name: "r.example.", Qtype: dnsmessage.TypeA, Scope: &c08Scope{Kind: "upstream", Scheme: "udp", Host: "1.1.1.1", Port: 53}}
	key := w.key(op)
	msg := &dnsmessage.Msg{}
	msg.Response = true
	msg.Question = []dnsmessage.Question{{Name: op.Name, Qtype: op.Qtype, Qclass: dnsmessage.ClassINET}}
	msg.Answer = []dnsmessage.RR{c08AnsRR(op.Name, op.Qtype, 1, 2, 0)}
	if err := w.ctl.NormalizeAndCacheDnsResp_(msg, key); err != nil {
		res.Err = err.Error()
		return
	}
	w.advance(3 * int64(time.Second)) // TTL 2 s: the entry is one second inside its 60 s stale window
	entry := w.entry(key)
	if entry == nil {
		res.Err = "entry missing after insert"
		return
	}
	query := func() *dnsmessage.Msg {
		q := &dnsmessage.Msg{}
		q.Id = 7
		q.RecursionDesired = true
		q.Question = []dnsmessage.Question{{Name: op.Name, Qtype: op.Qtype, Qclass: dnsmessage.ClassINET}}
		return q
	}
	if cs.Flag0 {
		// a first stale hit claims the refresh, through the real code, before any thread exists
		if resp, cl := c08LookupClaim(w.ctl, query(), key); resp == nil || cl == nil {
			res.Err = "sequential stale hit did not claim the refresh"
			return
		}
	}
	res.Flag0 = entry.refreshing.Load()

	sched := &c08rSched{threads: map[int64]*c08rThread{}}
	VerifYield = sched.yield
	defer func() { VerifYield = nil }()
	stuck := func() {
		res.Stuck = true
		res.Dump = c08rDump()
	}
	var threads []*c08rThread
	var inflight atomic.Int32
	entries := []*DnsCache{entry}
	for ti, kind := range cs.Threads {
		var th *c08rThread
		var ok bool
		if kind == "L" {
			th, ok = sched.spawn(true, false, func(th *c08rThread) {
				resp, cl := c08LookupClaim(w.ctl, query(), key)
				th.served, th.refresh = resp != nil, cl != nil
			})
		} else if strings.HasPrefix(kind, "T:") {
			outcome, id := kind[2:], uint32(100+ti)
			th, ok = sched.spawn(true, true, func(th *c08rThread) {
				resp, cl := c08LookupClaim(w.ctl, query(), key)
				refresh := cl != nil
				th.served, th.refresh = resp != nil, refresh
				if !refresh {
					return
				}
				// the background refresh this lookup starts: its upstream work, then backgroundRefresh's completion
				inflight.Add(1)
				if outcome == "f" {
					sched.yield("c08.rf.h.upstream") // the upstream gives no answer
				} else {
					ttl := uint32(0)
					if outcome == "3" {
						ttl = 300
					}
					m := &dnsmessage.Msg{}
					m.Response = true
					m.Question = []dnsmessage.Question{{Name: op.Name, Qtype: op.Qtype, Qclass: dnsmessage.ClassINET}}
					m.Answer = []dnsmessage.RR{c08AnsRR(op.Name, op.Qtype, id, ttl, 0)}
					_ = w.ctl.NormalizeAndCacheDnsResp_(m, key) // the insert path, as dialSend does with the upstream's answer
				}
				inflight.Add(-1)
				c08BackgroundRefresh(w.ctl, cl, key)
			})
		} else {
			th, ok = sched.spawn(false, false, func(th *c08rThread) {
				c08BackgroundRefresh(w.ctl, entry, key) // completion of a refresh that had claimed the original entry
			})
		}
		threads = append(threads, th)
		if !ok {
			stuck()
			return
		}
	}
	// positioning: every thread runs up to its first atomic operation on the flag (nothing before it touches the flag)
	for _, th := range threads {
		if !sched.step(th) {
			stuck()
			return
		}
		res.Init = append(res.Init, th.at)
	}
	record := func(i int, before string) {
		th := threads[i]
		st := c08rStep{T: i, Before: before, At: th.at, Flag: entry.refreshing.Load(), Done: th.finished, Served: th.served, Inflight: int(inflight.Load())}
		if cur := w.entry(key); cur != nil {
			st.Cur = -1
			for j, e := range entries {
				if e == cur {
					st.Cur = j
				}
			}
			if st.Cur < 0 {
				entries = append(entries, cur)
				st.Cur = len(entries) - 1
			}
		} else {
			st.Cur = -1
		}
		for _, e := range entries {
			st.Flags = append(st.Flags, e.refreshing.Load())
		}
		if th.finished && th.lookup {
			r := th.refresh
			st.Res = &r
		}
		res.Steps = append(res.Steps, st)
		res.Effective = append(res.Effective, i)
	}
	for _, i := range cs.Schedule {
		if i < 0 || i >= len(threads) || threads[i].finished {
			continue
		}
		before := threads[i].at
		if !sched.step(threads[i]) {
			stuck()
			return
		}
		record(i, before)
	}
	// drain: let every thread that has not returned finish, in index order
	for i, th := range threads {
		for !th.finished {
			before := th.at
			if !sched.step(th) {
				stuck()
				return
			}
			record(i, before)
		}
	}
	return res
}

func TestVerifC08R(t *testing.T) {
	dnsCacheJanitorInterval = 1000 * time.Hour
	verifEachLine(t, func(line []byte) any {
		var cs c08rCase
		if err := json.Unmarshal(line, &cs); err != nil {
			t.Fatalf("bad case: %v", err)
		}
		return c08rRun(cs)
	})
}
