//go:build verif

package control

// C06: the handlePkt-level history "a datagram that looks like a QUIC Initial but ends right after the
// DCID, sent twice on the same 4-tuple".  It drives the REAL ControlPlane.handlePkt through the
// repository's own test scaffolding (udp_reuse_simulation_test.go, udp_quic_initial_regression_test.go);
// if that scaffolding changes, the orchestrator builds the harness without this file and says so.

import (
	"encoding/json"
	"fmt"
	"testing"

	"github.com/daeuniverse/dae/common/consts"
)

type c06hpktCase struct {
	DcidLen int `json:"dcid_len"`
	Extra   int `json:"extra"` // bytes kept after the DCID
	Repeat  int `json:"repeat"`
}

type c06hpktResult struct {
	Panics []string `json:"panics"`
	Errs   []string `json:"errs"`
	Writes int32    `json:"writes"`
	Sent   int      `json:"sent"`
}

func TestVerifC06Hpkt(t *testing.T) {
	verifEachLine(t, func(line []byte) any {
		var cs c06hpktCase
		if err := json.Unmarshal(line, &cs); err != nil {
			return c06hpktResult{}
		}
		restore := setupQuicInitialRegressionTestState(t)
		defer restore()
		conn := &udpReuseSimulationConn{reads: make(chan scriptedPacketRead), closeCh: make(chan struct{})}
		d, _ := newCountingProxyEndpointDialer("hysteria2", "proxy.example:443", conn)
		cp := newUdpReuseSimulationControlPlane(newTestFixedOutboundGroup(d))
		full := makeLikelyQuicInitialPayload(0x18)
		n := 6 + int(full[5]) + cs.Extra
		if n > len(full) {
			n = len(full)
		}
		payload := full[:n:n]
		src, dst, flowDecision := newQuicInitialRegressionFlow(t, payload)
		primeQuicRegressionAnyfrom(src, dst)
		routingResult := &bpfRoutingResult{Outbound: uint8(consts.OutboundUserDefinedMin)}
		res := c06hpktResult{Panics: []string{}, Errs: []string{}}
		for i := 1; i <= cs.Repeat; i++ {
			res.Sent++
			stop := false
			func() {
				defer func() {
					if r := recover(); r != nil {
						res.Panics = append(res.Panics, fmt.Sprintf("handlePkt #%d: %v", i, r))
						stop = true
					}
				}()
				decision := ClassifyUdpFlow(src, dst, payload).EnsureSnifferSession()
				if i == 1 {
					decision = flowDecision
				}
				if err := cp.handlePkt(nil, payload, src, dst, routingResult, decision, false); err != nil {
					res.Errs = append(res.Errs, fmt.Sprintf("handlePkt #%d: %v", i, err))
				}
			}()
			if stop {
				break
			}
		}
		res.Writes = conn.writeCalls.Load()
		return res
	})
}
