//go:build verif

package control

// C01 harness: routing programs written as dae config text are parsed by the real config parser, patched by
// config.New (patchMustOutbound), lowered by NewRoutingMatcherBuilder (no optimizers: that is C04), built
// with BuildUserspace and probed through RoutingMatcher.Match and ControlPlane.Route.

import (
	"encoding/hex"
	"encoding/json"
	"fmt"
	"io"
	"net/netip"
	"regexp"
	"strings"
	"testing"

	"github.com/daeuniverse/dae/common/consts"
	"github.com/daeuniverse/dae/component/routing"
	"github.com/daeuniverse/dae/config"
	"github.com/daeuniverse/dae/pkg/config_parser"
	"github.com/sirupsen/logrus"
)

type c01Packet struct {
	Via    string `json:"via"` // "match" | "route"
	Src    string `json:"src"`
	Dst    string `json:"dst"`
	Sport  uint16 `json:"sport"`
	Dport  uint16 `json:"dport"`
	L4     uint8  `json:"l4"`
	IpVer  uint8  `json:"ipver"` // only for via=match
	Domain string `json:"domain"`
	Pname  string `json:"pname"` // 32 hex digits
	Mac    string `json:"mac"`   // 12 hex digits
	Dscp   uint8  `json:"dscp"`
}

type c01Case struct {
	Text    string           `json:"text"`
	Full    bool             `json:"full"` // production path: NewNormalizedProgram with the four rule optimizers
	Groups  map[string]uint8 `json:"groups"`
	Regex   []string         `json:"regex"`
	Packets []c01Packet      `json:"packets"`
}

type c01KV struct {
	K string `json:"k"`
	V string `json:"v"`
}
type c01Func struct {
	Name   string  `json:"name"`
	Not    bool    `json:"not"`
	Params []c01KV `json:"params"`
}
type c01Rule struct {
	Fs  []c01Func `json:"fs"`
	Out c01Func   `json:"out"`
}
type c01Mset struct {
	Type  uint8  `json:"type"`
	Not   bool   `json:"not"`
	Out   uint8  `json:"out"`
	Mark  uint32 `json:"mark"`
	Must  bool   `json:"must"`
	Lpm   uint32 `json:"lpm"`
	Ps    uint16 `json:"ps"`
	Pe    uint16 `json:"pe"`
	Mask  uint8  `json:"mask"`
	Pname string `json:"pname"`
	Dscp  uint8  `json:"dscp"`
}
type c01DomSet struct {
	Idx    int      `json:"idx"`
	Key    string   `json:"key"`
	Values []string `json:"values"`
}
type c01Res struct {
	O    uint8    `json:"o"`
	Mark uint32   `json:"mark"`
	Must bool     `json:"must"`
	Err  string   `json:"err,omitempty"`
	Bm   []uint32 `json:"bm"` // what the real domain matcher returned for this packet's domain (nil if no domain)
	Rx   []int    `json:"rx"` // indices into Regex of the patterns that Go's regexp matches on the domain
}
type c01Result struct {
	Stage    string      `json:"stage,omitempty"` // where it failed: parse | config | build | userspace | panic
	Err      string      `json:"err,omitempty"`
	Rules    []c01Rule   `json:"rules"`
	Fallback *c01Func    `json:"fallback"`
	Msets    []c01Mset   `json:"msets"`
	Tries    [][]string  `json:"tries"` // per trie: "4|6" + hex(As16) + "/" + bits
	DomSets  []c01DomSet `json:"domsets"`
	Results  []c01Res    `json:"results"`
}

func c01Fn(f *config_parser.Function) c01Func {
	r := c01Func{Name: f.Name, Not: f.Not, Params: []c01KV{}}
	for _, p := range f.Params {
		v := p.Val
		if p.AndFunctions != nil {
			v = "<functions>"
		}
		r.Params = append(r.Params, c01KV{K: p.Key, V: v})
	}
	return r
}

func c01Arr16(h string) (a [16]uint8, err error) {
	b, err := hex.DecodeString(h)
	if err != nil || len(b) != 16 {
		return a, fmt.Errorf("bad 16-byte hex %q", h)
	}
	copy(a[:], b)
	return a, nil
}

func c01Run(cs c01Case) (res c01Result) {
	defer func() {
		if r := recover(); r != nil {
			res.Stage = "panic"
			res.Err = fmt.Sprint(r)
		}
	}()
	log := logrus.New()
	log.SetOutput(io.Discard)
	sections, err := config_parser.Parse(cs.Text)
	if err != nil {
		return c01Result{Stage: "parse", Err: err.Error()}
	}
	conf, err := config.New(sections)
	if err != nil {
		return c01Result{Stage: "config", Err: err.Error()}
	}
	for _, r := range conf.Routing.Rules {
		cr := c01Rule{Fs: []c01Func{}, Out: c01Fn(&r.Outbound)}
		for _, f := range r.AndFunctions {
			cr.Fs = append(cr.Fs, c01Fn(f))
		}
		res.Rules = append(res.Rules, cr)
	}
	if fb, e := config.ParseFunctionOrString(conf.Routing.Fallback); e == nil {
		f := c01Fn(fb)
		res.Fallback = &f
	}
	// The plain builder (no optimizers) is always built: its match-set array, LPM sets and domain sets are what the
	// model's lowering is compared with, and its domain matcher answers in the model's match-set indexing.
	var prodBuilder *RoutingMatcherBuilder
	if cs.Full {
		// as NewControlPlane does: optimizers, then the builder from the normalized program.  The optimizers merge,
		// sort and deduplicate, so the production array (and the bit index of every domain set) differs from the plain one.
		program, perr := routing.NewNormalizedProgram(routing.DeepCloneRules(conf.Routing.Rules), conf.Routing.Fallback,
			&routing.AliasOptimizer{},
			&routing.DatReaderOptimizer{Logger: log},
			&routing.MergeAndSortRulesOptimizer{},
			&routing.DeduplicateParamsOptimizer{},
		)
		if perr != nil {
			res.Stage, res.Err = "build", "optimizers: "+perr.Error()
			return res
		}
		prodBuilder, err = NewRoutingMatcherBuilderFromProgram(log, program, cs.Groups, nil)
		if err != nil {
			res.Stage, res.Err = "build", err.Error()
			return res
		}
	}
	builder, err := NewRoutingMatcherBuilder(log, conf.Routing.Rules, cs.Groups, nil, conf.Routing.Fallback)
	if err != nil {
		res.Stage, res.Err = "build", err.Error()
		return res
	}
	for i, c := range builder.compiledRules {
		res.Msets = append(res.Msets, c01Mset{Type: uint8(c.matchType), Not: c.not, Out: uint8(c.outbound), Mark: c.mark, Must: c.must,
			Lpm: c.lpmIndex, Ps: c.portStart, Pe: c.portEnd, Mask: c.mask, Pname: hex.EncodeToString(c.pname[:]), Dscp: c.dscp})
		// the raw bpfMatchSet must carry the same header fields
		raw := builder.rules[i]
		if raw.Type != uint8(c.matchType) || (raw.Not != 0) != c.not || raw.Outbound != uint8(c.outbound) || raw.Mark != c.mark || (raw.Must != 0) != c.must {
			res.Stage, res.Err = "build", fmt.Sprintf("compiledRules[%d] and rules[%d] disagree", i, i)
			return res
		}
	}
	for _, t := range builder.simulatedLpmTries {
		ps := []string{}
		for _, p := range t {
			fam := "6"
			if p.Addr().Is4() {
				fam = "4"
			}
			a := p.Addr().As16()
			ps = append(ps, fam+hex.EncodeToString(a[:])+"/"+fmt.Sprint(p.Bits()))
		}
		res.Tries = append(res.Tries, ps)
	}
	for _, d := range builder.simulatedDomainSet {
		res.DomSets = append(res.DomSets, c01DomSet{Idx: d.RuleIndex, Key: string(d.Key), Values: d.Domains})
	}
	plainMatcher, err := builder.BuildUserspace()
	if err != nil {
		res.Stage, res.Err = "userspace", err.Error()
		return res
	}
	matcher := plainMatcher // decisions come from this one
	if prodBuilder != nil {
		matcher, err = prodBuilder.BuildUserspace()
		if err != nil {
			res.Stage, res.Err = "userspace", err.Error()
			return res
		}
	}
	plane := &ControlPlane{controlPlaneGenerationState: controlPlaneGenerationState{routingMatcher: matcher}}
	var regs []*regexp.Regexp
	for _, r := range cs.Regex {
		re, e := regexp.Compile(r)
		if e != nil {
			re = nil
		}
		regs = append(regs, re)
	}
	for _, p := range cs.Packets {
		var pr c01Res
		func() {
			defer func() {
				if r := recover(); r != nil {
					pr.Err = "panic: " + fmt.Sprint(r)
				}
			}()
			src, e1 := netip.ParseAddr(p.Src)
			dst, e2 := netip.ParseAddr(p.Dst)
			pname, e3 := c01Arr16(p.Pname)
			macb, e4 := hex.DecodeString(p.Mac)
			if e1 != nil || e2 != nil || e3 != nil || e4 != nil || len(macb) != 6 {
				pr.Err = "harness: bad packet"
				return
			}
			var mac6 [6]uint8
			copy(mac6[:], macb)
			var o consts.OutboundIndex
			var mark uint32
			var must bool
			var err error
			if p.Via == "route" {
				o, mark, must, err = plane.Route(netip.AddrPortFrom(src, p.Sport), netip.AddrPortFrom(dst, p.Dport), p.Domain,
					consts.L4ProtoType(p.L4), &bpfRoutingResult{Mac: mac6, Pname: pname, Dscp: p.Dscp})
			} else {
				var mac16 [16]uint8
				copy(mac16[10:], mac6[:])
				o, mark, must, err = matcher.Match(src.As16(), dst.As16(), p.Sport, p.Dport, consts.IpVersionType(p.IpVer),
					consts.L4ProtoType(p.L4), p.Domain, pname, p.Dscp, mac16)
			}
			pr.O, pr.Mark, pr.Must = uint8(o), mark, must
			if err != nil {
				pr.Err = err.Error()
			}
			if p.Domain != "" {
				pr.Bm = plainMatcher.domainMatcher.MatchDomainBitmap(p.Domain)
				d := strings.ToLower(strings.TrimSuffix(p.Domain, "."))
				for i, re := range regs {
					if re != nil && re.MatchString(d) {
						pr.Rx = append(pr.Rx, i)
					}
				}
			}
		}()
		res.Results = append(res.Results, pr)
	}
	return res
}

func TestVerifC01(t *testing.T) {
	verifEachLine(t, func(line []byte) any {
		var cs c01Case
		if err := json.Unmarshal(line, &cs); err != nil {
			return c01Result{Stage: "harness", Err: err.Error()}
		}
		return c01Run(cs)
	})
}
