//go:build verif

package control

// C09 "flight" family: one singleflight flight of the real DnsController with clients of mixed kinds
// (transparent-UDP clients answered by datagrams on loopback sockets, listener / TCP clients answered
// through a response writer).  The scheduling point is the start of the shared resolution
// (resolveForSingleflight, a verifYield inserted by the check's build-time overlay): there the waiters are
// started and joined, and - if the history says so - an earlier flight publishes the answer into the
// cache, before the shared resolution does its own cache lookup.

import (
	"context"
	"errors"
	"fmt"
	"io"
	"net"
	"net/netip"
	"runtime"
	"strings"
	"sync"
	"time"

	"github.com/daeuniverse/dae/common/consts"
	componentdns "github.com/daeuniverse/dae/component/dns"
	"github.com/daeuniverse/dae/config"
	dnsmessage "github.com/miekg/dns"
	"github.com/sirupsen/logrus"
)

type c09FlightClientSpec struct {
	Kind string `json:"kind"` // udp | listener | tcp
	ID   int    `json:"id"`
	Name string `json:"name"`
}

type c09FlightCase struct {
	QType     uint16                `json:"qtype"`
	Leader    c09FlightClientSpec   `json:"leader"`
	Waiters   []c09FlightClientSpec `json:"waiters"`
	Pub       string                `json:"pub"` // never | window | before
	PubSerial int                   `json:"pub_serial"`
	Up        c09FRes               `json:"up"`
}

type c09FlightResult struct {
	Kind      string      `json:"kind"`
	Replies   [][]*c09Msg `json:"replies"` // per client (leader first): every reply received, in order
	Errs      []string    `json:"errs"`    // what the handler returned
	Calls     int         `json:"calls"`   // upstream forwards
	Packed    bool        `json:"packed"`
	HookFired bool        `json:"hook_fired"`
	Stuck     bool        `json:"stuck,omitempty"`
	Dump      string      `json:"dump,omitempty"`
	ElapsedMs int64       `json:"elapsed_ms"`
	Panic     string      `json:"panic,omitempty"`
}

type c09FlightClient struct {
	spec   c09FlightClientSpec
	msg    *dnsmessage.Msg
	req    *udpRequest
	writer *c09Writer
	sock   *net.UDPConn
	err    error
	done   chan struct{}
}

//go:noinline
func c09FlightClientMain(ctrl *DnsController, cl *c09FlightClient) {
	defer close(cl.done)
	defer func() {
		if r := recover(); r != nil {
			cl.err = fmt.Errorf("panic: %v", r)
		}
	}()
	if cl.writer != nil {
		cl.err = ctrl.HandleWithResponseWriter_(context.Background(), cl.msg, cl.req, cl.writer)
	} else {
		cl.err = ctrl.Handle_(context.Background(), cl.msg, cl.req)
	}
	if cl.err == nil || errors.Is(cl.err, ErrDNSQueryConcurrencyLimitExceeded) {
		return
	}
	// what the callers do with an error: udp.go (DNS fast path) / dns_listener.go ServeDNS / tcp.go
	if cl.writer != nil {
		m := new(dnsmessage.Msg)
		m.SetRcode(cl.msg, dnsmessage.RcodeServerFailure)
		_ = cl.writer.WriteMsg(m)
	} else {
		_ = ctrl.sendDnsErrorResponse_(cl.msg, dnsmessage.RcodeServerFailure, "ServeFail (dns fast path)", cl.req, nil)
	}
}

func c09RunFlight(cs c09FlightCase) (res c09FlightResult) {
	res.Kind = "flight"
	t0 := time.Now()
	defer func() { res.ElapsedMs = time.Since(t0).Milliseconds() }()
	defer func() {
		if r := recover(); r != nil {
			res.Panic = fmt.Sprint(r)
		}
	}()
	log := logrus.New()
	log.SetOutput(io.Discard)
	routing, err := componentdns.New(&config.Dns{
		Upstream: []config.KeyableString{"u:udp://198.51.100.53:53"},
		Routing: config.DnsRouting{
			Request:  config.DnsRequestRouting{Fallback: "u"},
			Response: config.DnsResponseRouting{Fallback: "accept"},
		},
	}, &componentdns.NewOption{Logger: log, UpstreamReadyCallback: func(*componentdns.Upstream) error { return nil }})
	if err != nil {
		panic(err)
	}
	var mu sync.Mutex
	original := dnsForwarderFactory
	defer func() { dnsForwarderFactory = original }()
	dnsForwarderFactory = func(upstream *componentdns.Upstream, dialArg dialArgument, _ *logrus.Logger) (DnsForwarder, error) {
		return &stubDnsForwarder{forward: func(ctx context.Context, data []byte) (*dnsmessage.Msg, error) {
			mu.Lock()
			res.Calls++
			mu.Unlock()
			if cs.Up.T == "msg" {
				return c09Build(*cs.Up.M), nil
			}
			return nil, fmt.Errorf("c09: scripted upstream failure")
		}}, nil
	}
	ctrl, err := NewDnsController(routing, &DnsControllerOption{
		Log:                 log,
		LifecycleContext:    context.Background(),
		CacheAccessCallback: func(*DnsCache) error { return nil },
		CacheRemoveCallback: func(*DnsCache) error { return nil },
		NewCache: func(fqdn string, answers, ns, extra []dnsmessage.RR, deadline, originalDeadline time.Time) (*DnsCache, error) {
			return &DnsCache{Answer: answers, NS: ns, Extra: extra, Deadline: deadline, OriginalDeadline: originalDeadline}, nil
		},
		BestDialerChooser: func(ctx context.Context, req *udpRequest, upstream *componentdns.Upstream) (*dialArgument, error) {
			return &dialArgument{l4proto: consts.L4ProtoStr_UDP, ipversion: consts.IpVersionStr_4, bestTarget: netip.MustParseAddrPort("198.51.100.53:53")}, nil
		},
		TimeoutExceedCallback: func(*dialArgument, error) {},
	})
	if err != nil {
		panic(err)
	}
	defer ctrl.Close()

	// loopback plumbing so that the transparent-UDP reply path (sendPkt) works unprivileged: replyConn plays
	// the DNS server address dae answers from; every UDP client has its own socket
	oldPool := DefaultAnyfromPool
	DefaultAnyfromPool = newTestAnyfromPoolWithoutJanitor()
	defer func() {
		DefaultAnyfromPool.Reset()
		DefaultAnyfromPool = oldPool
	}()
	listen := func() *net.UDPConn {
		c, err := net.ListenUDP("udp4", &net.UDPAddr{IP: net.IPv4(127, 0, 0, 1)})
		if err != nil {
			panic(err)
		}
		return c
	}
	replyConn, lConn, sentinelConn := listen(), listen(), listen()
	defer lConn.Close()
	defer sentinelConn.Close()
	replyAddr := replyConn.LocalAddr().(*net.UDPAddr).AddrPort()
	af := &Anyfrom{UDPConn: replyConn, ttl: AnyfromTimeout}
	af.RefreshTtl()
	shard := DefaultAnyfromPool.shardFor(replyAddr)
	shard.mu.Lock()
	shard.pool[replyAddr] = af
	shard.mu.Unlock()

	mk := func(i int, sp c09FlightClientSpec) *c09FlightClient {
		cl := &c09FlightClient{spec: sp, msg: c09Query(sp.ID, sp.Name, cs.QType), done: make(chan struct{})}
		if sp.Kind == "udp" {
			cl.sock = listen()
			a := cl.sock.LocalAddr().(*net.UDPAddr).AddrPort()
			cl.req = &udpRequest{realSrc: a, realDst: replyAddr, src: a, lConn: lConn, routingResult: &bpfRoutingResult{}}
		} else {
			a := netip.AddrPortFrom(netip.MustParseAddr("127.0.0.1"), uint16(45000+i))
			cl.req = &udpRequest{realSrc: a, realDst: replyAddr, src: a, routingResult: &bpfRoutingResult{}}
			cl.writer = &c09Writer{}
		}
		return cl
	}
	leader := mk(0, cs.Leader)
	var waiters []*c09FlightClient
	for i, sp := range cs.Waiters {
		waiters = append(waiters, mk(i+1, sp))
	}
	all := append([]*c09FlightClient{leader}, waiters...)
	defer func() {
		for _, cl := range all {
			if cl.sock != nil {
				cl.sock.Close()
			}
		}
	}()

	low := strings.ToLower(cs.Leader.Name)
	publish := func() {
		idx, up, err := routing.RequestSelect(context.Background(), low, cs.QType)
		if err != nil {
			panic(err)
		}
		key := ctrl.responseCacheKey(ctrl.cacheKey(low, cs.QType), leader.req, idx, up)
		var ans []dnsmessage.RR
		ans = append(ans, c09MakeRR(c09RR{Name: low, Type: cs.QType, Serial: cs.PubSerial}))
		if err := ctrl.UpdateDnsCacheTtlWithKey(key, low, cs.QType, ans, nil, nil, 3600); err != nil {
			panic(err)
		}
	}
	started := false
	startWaiters := func() {
		started = true
		for _, w := range waiters {
			go c09FlightClientMain(ctrl, w)
		}
	}
	var once sync.Once
	VerifYield = func(point string) {
		if point != "flight.shared.start" {
			return
		}
		once.Do(func() {
			res.HookFired = true
			// we are inside the leader's singleflight closure, before the shared resolution's cache lookup:
			// let the waiters join this flight ...
			startWaiters()
			deadline := time.Now().Add(c09D(60 * time.Second))
			pause := 200 * time.Microsecond
			for {
				buf := make([]byte, 1<<20)
				n := runtime.Stack(buf, true)
				joined := 0
				for _, g := range strings.Split(string(buf[:n]), "\n\n") {
					if strings.Contains(g, "c09FlightClientMain") && strings.Contains(g, "sync.(*WaitGroup).Wait") {
						joined++
					}
				}
				if joined >= len(waiters) {
					break
				}
				if time.Now().After(deadline) {
					res.Stuck = true
					res.Dump = c09Dump()
					break
				}
				time.Sleep(pause)
				if pause < 20*time.Millisecond {
					pause *= 2
				}
			}
			// ... and let the earlier flight for the same question complete right now
			if cs.Pub == "window" {
				publish()
			}
		})
	}
	defer func() { VerifYield = nil }()

	if cs.Pub == "before" {
		publish()
	}
	go c09FlightClientMain(ctrl, leader)
	waitDone := func(cl *c09FlightClient) {
		select {
		case <-cl.done:
		case <-time.After(c09D(60 * time.Second)):
			res.Stuck = true
			if res.Dump == "" {
				res.Dump = c09Dump()
			}
		}
	}
	waitDone(leader)
	if !started {
		startWaiters() // no flight happened (plain cache hit): the other clients ask afterwards
	}
	for _, w := range waiters {
		waitDone(w)
	}

	for _, cl := range all {
		var out []*c09Msg
		if cl.writer != nil {
			cl.writer.mu.Lock()
			for _, m := range cl.writer.msgs {
				out = append(out, c09Decode(m))
			}
			cl.writer.mu.Unlock()
		} else {
			// everything dae sent to this client is already queued on its socket; a sentinel marks the end
			_, _ = sentinelConn.WriteToUDPAddrPort([]byte{0xee}, cl.sock.LocalAddr().(*net.UDPAddr).AddrPort())
			buf := make([]byte, 4096)
			for {
				_ = cl.sock.SetReadDeadline(time.Now().Add(c09D(30 * time.Second)))
				n, _, err := cl.sock.ReadFromUDPAddrPort(buf)
				if err != nil {
					res.Stuck = true
					break
				}
				if n == 1 && buf[0] == 0xee {
					break
				}
				m := new(dnsmessage.Msg)
				if err := m.Unpack(buf[:n]); err != nil {
					out = append(out, &c09Msg{ID: -1, QName: "garbage"})
					continue
				}
				out = append(out, c09Decode(m))
			}
		}
		if out == nil {
			out = []*c09Msg{}
		}
		res.Replies = append(res.Replies, out)
		if cl.err != nil {
			res.Errs = append(res.Errs, cl.err.Error())
		} else {
			res.Errs = append(res.Errs, "")
		}
	}
	ctrl.dnsCache.Range(func(k, v any) bool {
		if v.(*DnsCache).deadlineNano.Load() != 0 {
			res.Packed = true
		}
		return true
	})
	return res
}
