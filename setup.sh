#!/bin/sh
# Build the framework from files on disk only (offline): the whole Coq development, and warm the Go
# build cache for the harness tags.
set -e
cd "$(dirname "$0")"
python3 tools/setup.py
